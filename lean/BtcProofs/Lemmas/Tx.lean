import BtcModel.Tx
import BtcModel.Block
import BtcProofs.Lemmas.Bytes
/-! Reader/serialiser lemmas for transactions. -/
namespace Btc

theorem readFixed_le (n k : Nat) (r : Bytes) (h : n < 256 ^ k) :
    readFixed k (leBytes n k ++ r) = some (n, r) := by
  unfold readFixed
  simp [leVal_leBytes, Nat.mod_eq_of_lt h]

theorem readBytes_append (b r : Bytes) : readBytes b.length (b ++ r) = some (b, r) := by
  unfold readBytes; simp

theorem csE_eq (n : Nat) (h : n < 2^64) : csEnc n = some (csE n) := by
  unfold csE
  unfold csEnc
  repeat' split
  all_goals first | rfl | omega

theorem readCs_csE (n : Nat) (h : n < 2^64) (r : Bytes) : readCs (csE n ++ r) = some (n, r) := by
  unfold csE csEnc
  split
  · have : (UInt8.ofNat n).toNat = n := toNat_ofNat_lt (by omega)
    simp [readCs, this]; omega
  · split
    · have e : (0xfd : UInt8).toNat = 253 := by decide
      simp only [Option.getD_some, List.cons_append, readCs, e]
      simp
      exact readFixed_le n 2 r (by omega)
    · split
      · have e : (0xfe : UInt8).toNat = 254 := by decide
        simp only [Option.getD_some, List.cons_append, readCs, e]
        simp
        exact readFixed_le n 4 r (by omega)
      · have e : (0xff : UInt8).toNat = 255 := by decide
        simp only [Option.getD_some, List.cons_append, readCs, e]
        simp
        exact readFixed_le n 8 r (by omega)

/-- the first byte of a non-zero count is not the segwit marker -/
theorem csE_head_ne_zero (n : Nat) (h1 : 1 ≤ n) (h : n < 2^64) (r : Bytes) :
    ∃ b rest, csE n ++ r = b :: rest ∧ b ≠ 0 := by
  unfold csE csEnc
  split
  · refine ⟨UInt8.ofNat n, r, by simp, ?_⟩
    intro hz
    have : (UInt8.ofNat n).toNat = n := toNat_ofNat_lt (by omega)
    rw [hz] at this; simp at this; omega
  · split
    · exact ⟨0xfd, leBytes n 2 ++ r, by simp, by decide⟩
    · split
      · exact ⟨0xfe, leBytes n 4 ++ r, by simp, by decide⟩
      · exact ⟨0xff, leBytes n 8 ++ r, by simp, by decide⟩

theorem readVarBytes_ser (b r : Bytes) (h : b.length < 2^64) :
    readVarBytes (serVarBytes b ++ r) = some (b, r) := by
  unfold readVarBytes serVarBytes
  rw [List.append_assoc, readCs_csE _ h]
  exact readBytes_append b r

theorem readIn_serIn (i : TxIn) (h : i.WF) (r : Bytes) : readIn (serIn i ++ r) = some (i, r) := by
  obtain ⟨h1, h2, h3, h4⟩ := h
  unfold readIn serIn
  have e1 : i.prevTxid ++ leBytes i.vout 4 ++ serVarBytes i.scriptSig ++ leBytes i.sequence 4 ++ r
      = i.prevTxid ++ (leBytes i.vout 4 ++ (serVarBytes i.scriptSig ++ (leBytes i.sequence 4 ++ r))) := by
    simp [List.append_assoc]
  rw [e1]
  have := readBytes_append i.prevTxid (leBytes i.vout 4 ++ (serVarBytes i.scriptSig ++ (leBytes i.sequence 4 ++ r)))
  rw [h1] at this
  simp only [this, readFixed_le _ 4 _ (by omega : i.vout < 256 ^ 4), readVarBytes_ser _ _ h3,
    readFixed_le _ 4 _ (by omega : i.sequence < 256 ^ 4)]

theorem readOut_serOut (o : TxOut) (h : o.WF) (r : Bytes) : readOut (serOut o ++ r) = some (o, r) := by
  obtain ⟨h1, h2⟩ := h
  unfold readOut serOut
  rw [List.append_assoc]
  simp only [readFixed_le _ 8 _ (by omega : o.value < 256 ^ 8), readVarBytes_ser _ _ h2]

/-- generic list round trip -/
theorem readN_ser {α : Type} (rd : Bytes → Option (α × Bytes)) (ser : α → Bytes) (l : List α)
    (h : ∀ a ∈ l, ∀ r, rd (ser a ++ r) = some (a, r)) (r : Bytes) :
    readN rd l.length ((l.map ser).flatten ++ r) = some (l, r) := by
  induction l with
  | nil => simp [readN]
  | cons a as ih =>
    have ha := h a (by simp)
    have has : ∀ x ∈ as, ∀ r, rd (ser x ++ r) = some (x, r) := fun x hx => h x (by simp [hx])
    simp only [List.map_cons, List.flatten_cons, List.length_cons, readN, List.append_assoc, ha, ih has]

theorem readList_ser {α : Type} (rd : Bytes → Option (α × Bytes)) (ser : α → Bytes) (l : List α)
    (hl : l.length < 2^64) (h : ∀ a ∈ l, ∀ r, rd (ser a ++ r) = some (a, r)) (r : Bytes) :
    readList rd (csE l.length ++ (l.map ser).flatten ++ r) = some (l, r) := by
  unfold readList
  rw [List.append_assoc, readCs_csE _ hl]
  exact readN_ser rd ser l h r

theorem readStack_serStack (st : List Bytes) (h : stackWF st) (r : Bytes) :
    readStack (serStack st ++ r) = some (st, r) := by
  unfold readStack serStack
  exact readList_ser readVarBytes serVarBytes st h.1 (fun a ha r => readVarBytes_ser a r (h.2 a ha)) r

theorem readHeader_serHeader (h : BlockHeader) (hw : h.WF) (r : Bytes) :
    readHeader (serHeader h ++ r) = some (h, r) := by
  obtain ⟨h1, h2, h3, h4, h5, h6⟩ := hw
  unfold readHeader serHeader
  have e : leBytes h.version 4 ++ h.prevBlock ++ h.merkleRoot ++ leBytes h.time 4 ++ leBytes h.bits 4 ++ leBytes h.nonce 4 ++ r
      = leBytes h.version 4 ++ (h.prevBlock ++ (h.merkleRoot ++ (leBytes h.time 4 ++ (leBytes h.bits 4 ++ (leBytes h.nonce 4 ++ r))))) := by
    simp [List.append_assoc]
  rw [e]
  have p1 := readBytes_append h.prevBlock (h.merkleRoot ++ (leBytes h.time 4 ++ (leBytes h.bits 4 ++ (leBytes h.nonce 4 ++ r))))
  have p2 := readBytes_append h.merkleRoot (leBytes h.time 4 ++ (leBytes h.bits 4 ++ (leBytes h.nonce 4 ++ r)))
  rw [h2] at p1
  rw [h3] at p2
  simp only [readFixed_le _ 4 _ (by omega : h.version < 256 ^ 4), p1, p2,
    readFixed_le _ 4 _ (by omega : h.time < 256 ^ 4), readFixed_le _ 4 _ (by omega : h.bits < 256 ^ 4),
    readFixed_le _ 4 _ (by omega : h.nonce < 256 ^ 4)]

/-! ### The other direction for the fixed-width readers: whatever they accept re-serialises to the bytes read -/

theorem readFixed_some (k : Nat) (bs : Bytes) (v : Nat) (r : Bytes) (h : readFixed k bs = some (v, r)) :
    leBytes v k ++ r = bs ∧ v < 256 ^ k := by
  unfold readFixed at h
  split at h
  · simp at h
  · rename_i hl
    simp only [Option.some.injEq, Prod.mk.injEq] at h
    obtain ⟨hv, hr⟩ := h
    have hlen : (bs.take k).length = k := by simp; omega
    constructor
    · rw [← hv, ← hr]
      have := leBytes_leVal (bs.take k)
      rw [hlen] at this
      rw [this, List.take_append_drop]
    · rw [← hv]
      have := leVal_lt (bs.take k)
      rwa [hlen] at this

theorem readBytes_some (k : Nat) (bs b r : Bytes) (h : readBytes k bs = some (b, r)) :
    b ++ r = bs ∧ b.length = k := by
  unfold readBytes at h
  split at h
  · simp at h
  · rename_i hl
    simp only [Option.some.injEq, Prod.mk.injEq] at h
    obtain ⟨hb, hr⟩ := h
    constructor
    · rw [← hb, ← hr, List.take_append_drop]
    · rw [← hb]; simp; omega

/-- every byte string the header reader accepts is the serialisation of the (well-formed) header it
returns, followed by the rest it returns: the reader loses and invents nothing -/
theorem serHeader_readHeader (bs : Bytes) (h : BlockHeader) (r : Bytes) (hr : readHeader bs = some (h, r)) :
    serHeader h ++ r = bs ∧ h.WF := by
  unfold readHeader at hr
  split at hr
  · simp at hr
  · rename_i v r1 e1
    split at hr
    · simp at hr
    · rename_i p r2 e2
      split at hr
      · simp at hr
      · rename_i m r3 e3
        split at hr
        · simp at hr
        · rename_i t r4 e4
          split at hr
          · simp at hr
          · rename_i b r5 e5
            split at hr
            · simp at hr
            · rename_i n r6 e6
              simp only [Option.some.injEq, Prod.mk.injEq] at hr
              obtain ⟨hh, hrr⟩ := hr
              subst hh; subst hrr
              obtain ⟨a1, b1⟩ := readFixed_some _ _ _ _ e1
              obtain ⟨a2, b2⟩ := readBytes_some _ _ _ _ e2
              obtain ⟨a3, b3⟩ := readBytes_some _ _ _ _ e3
              obtain ⟨a4, b4⟩ := readFixed_some _ _ _ _ e4
              obtain ⟨a5, b5⟩ := readFixed_some _ _ _ _ e5
              obtain ⟨a6, b6⟩ := readFixed_some _ _ _ _ e6
              constructor
              · simp only [serHeader, List.append_assoc]
                rw [a6, a5, a4, a3, a2, a1]
              · exact ⟨by omega, b2, b3, by omega, by omega, by omega⟩

end Btc
