import BtcModel.Amount
import Mathlib.Tactic.Ring
import Mathlib.Tactic.Linarith
import Mathlib.Tactic.NormNum
import Mathlib.Tactic.Positivity
import Mathlib.Algebra.Order.Field.Rat
import Mathlib.Data.Rat.Floor
import Mathlib.Tactic.FieldSimp
/-!
# C17 — Amount conversion is exact to the smallest unit

> Converting a monetary amount between its textual or decimal form and the integer number of
> smallest units is exact for every amount up to the total supply, every supported denominator
> and every network: no amount is off by even one unit, and formatting an amount then parsing it
> returns the same integer. Amounts placed in transaction outputs and fees are always
> non-negative integers of the smallest unit.

The library computes with binary floating point.  `BtcModel/F64.lean` models binary64 exactly on
rationals (validated against CPython on every run).  The theorem below is stated for ANY
rounding function obeying the standard model of floating-point arithmetic (relative error at
most 2^-53 per operation) — binary64 round-to-nearest is one — and ANY denominator constant.
-/
namespace Btc.C17

/-- standard model of floating-point arithmetic: `fl x = x (1 + e)` with `|e| ≤ 2^-53` -/
def StdModel (fl : ℚ → ℚ) : Prop := ∀ x : ℚ, ∃ e : ℚ, |e| ≤ 1 / 2 ^ 53 ∧ fl x = x * (1 + e)

/-- core inequality: two roundings, each with relative error ≤ 2^-53, keep n within 1/2 for every
n up to the total supply 21·10^14. -/
theorem two_roundings (n e1 e3 : ℚ) (hn0 : 0 ≤ n) (hn : n ≤ 2100000000000000)
    (h1 : |e1| ≤ 1 / 2^53) (h3 : |e3| ≤ 1 / 2^53) :
    |n * (1 + e1) * (1 + e3) - n| < 1 / 2 := by
  have a1 := abs_le.mp h1
  have a3 := abs_le.mp h3
  have key : n * (1 + e1) * (1 + e3) - n = n * (e1 + e3 + e1 * e3) := by ring
  rw [key, abs_mul, abs_of_nonneg hn0]
  have hb : |e1 + e3 + e1 * e3| ≤ 2 / 2^53 + 1 / 2^106 := by
    rw [abs_le]
    constructor <;> nlinarith [a1.1, a1.2, a3.1, a3.2, mul_le_mul_of_nonneg_left a3.2 (by linarith : (0:ℚ) ≤ 1/2^53 - e1), mul_le_mul_of_nonneg_left a3.2 (by linarith : (0:ℚ) ≤ 1/2^53 + e1)]
  calc n * |e1 + e3 + e1 * e3| ≤ 2100000000000000 * (2 / 2^53 + 1 / 2^106) := by
        apply mul_le_mul hn hb (abs_nonneg _) (by norm_num)
    _ < 1 / 2 := by norm_num

/-- T1: `Value.from_satoshi(n).value_sat` — `fl(fl(n·d)/d)` — lies strictly within 1/2 of n for
every n ≤ 21·10^14, every non-zero denominator constant d (so the error of the literal `1e-08`
cancels) and every `fl` obeying the standard model.  Rounding to the nearest integer then
returns exactly n. -/
theorem from_satoshi_value_sat_close (fl : ℚ → ℚ) (hfl : StdModel fl) (d : ℚ) (hd : d ≠ 0) (n : ℕ)
    (hn : n ≤ 2100000000000000) :
    |fl (fl ((n : ℚ) * d) / d) - n| < 1 / 2 := by
  obtain ⟨e1, he1, h1⟩ := hfl ((n : ℚ) * d)
  obtain ⟨e3, he3, h3⟩ := hfl (fl ((n : ℚ) * d) / d)
  rw [h3, h1]
  have : (n : ℚ) * d * (1 + e1) / d * (1 + e3) = (n : ℚ) * (1 + e1) * (1 + e3) := by
    field_simp
  rw [this]
  exact two_roundings n e1 e3 (by positivity) (by exact_mod_cast hn) he1 he3

/-- a rational strictly within 1/2 of an integer rounds (in any round-to-nearest mode) to it:
its floor is n-1 or n and the fractional part decides for n -/
theorem nearest_int_of_close (y : ℚ) (n : ℤ) (h : |y - n| < 1 / 2) :
    ⌊y + 1 / 2⌋ = n := by
  have ha := abs_lt.mp h
  rw [Int.floor_eq_iff]
  constructor <;> linarith [ha.1, ha.2]

/-- T2: hence integer → Value → integer is the identity up to the total supply. -/
theorem value_sat_exact (fl : ℚ → ℚ) (hfl : StdModel fl) (d : ℚ) (hd : d ≠ 0) (n : ℕ) (hn : n ≤ 2100000000000000) :
    ⌊fl (fl ((n : ℚ) * d) / d) + 1 / 2⌋ = (n : ℤ) := by
  apply nearest_int_of_close
  exact_mod_cast from_satoshi_value_sat_close fl hfl d hd n hn

/-- the bound is not vacuous and not far from tight: 21·10^14 · (2u + u²) ≈ 0.466 < 1/2, while it
would fail for amounts above 2.26·10^15 -/
example : (2100000000000000 : ℚ) * (2 / 2^53 + 1 / 2^106) < 1 / 2 := by norm_num
example : ¬ ((2260000000000000 : ℚ) * (2 / 2^53 + 1 / 2^106) < 1 / 2) := by norm_num

/-- the identity function satisfies the standard model (non-vacuity of the hypothesis) -/
example : StdModel id := fun x => ⟨0, by norm_num, by simp⟩

end Btc.C17
