import BtcModel.Amount
import Mathlib.Tactic.Ring
import Mathlib.Tactic.Linarith
import Mathlib.Tactic.NormNum
import Mathlib.Tactic.Positivity
import Mathlib.Algebra.Order.Field.Rat
import Mathlib.Data.Rat.Floor
import Mathlib.Tactic.FieldSimp
/-!
# C17 — Amount conversion is exact to the smallest unit

> Converting a monetary amount between its textual or decimal form and the integer number of
> smallest units is exact for every amount up to the total supply, every supported denominator
> and every network: no amount is off by even one unit, and formatting an amount then parsing it
> returns the same integer. Amounts placed in transaction outputs and fees are always
> non-negative integers of the smallest unit.

The library computes with binary floating point.  `BtcModel/F64.lean` models binary64 exactly on
rationals (validated against CPython on every run).  The theorem below is stated for ANY
rounding function obeying the standard model of floating-point arithmetic (relative error at
most 2^-53 per operation) — binary64 round-to-nearest is one — and ANY denominator constant.
-/
namespace Btc.C17

/-- standard model of floating-point arithmetic: `fl x = x (1 + e)` with `|e| ≤ 2^-53` -/
def StdModel (fl : ℚ → ℚ) : Prop := ∀ x : ℚ, ∃ e : ℚ, |e| ≤ 1 / 2 ^ 53 ∧ fl x = x * (1 + e)

/-- core inequality: two roundings, each with relative error ≤ 2^-53, keep n within 1/2 for every
n up to the total supply 21·10^14. -/
theorem two_roundings (n e1 e3 : ℚ) (hn0 : 0 ≤ n) (hn : n ≤ 2100000000000000)
    (h1 : |e1| ≤ 1 / 2^53) (h3 : |e3| ≤ 1 / 2^53) :
    |n * (1 + e1) * (1 + e3) - n| < 1 / 2 := by
  have a1 := abs_le.mp h1
  have a3 := abs_le.mp h3
  have key : n * (1 + e1) * (1 + e3) - n = n * (e1 + e3 + e1 * e3) := by ring
  rw [key, abs_mul, abs_of_nonneg hn0]
  have hb : |e1 + e3 + e1 * e3| ≤ 2 / 2^53 + 1 / 2^106 := by
    rw [abs_le]
    constructor <;> nlinarith [a1.1, a1.2, a3.1, a3.2, mul_le_mul_of_nonneg_left a3.2 (by linarith : (0:ℚ) ≤ 1/2^53 - e1), mul_le_mul_of_nonneg_left a3.2 (by linarith : (0:ℚ) ≤ 1/2^53 + e1)]
  calc n * |e1 + e3 + e1 * e3| ≤ 2100000000000000 * (2 / 2^53 + 1 / 2^106) := by
        apply mul_le_mul hn hb (abs_nonneg _) (by norm_num)
    _ < 1 / 2 := by norm_num

/-- T1: `Value.from_satoshi(n).value_sat` — `fl(fl(n·d)/d)` — lies strictly within 1/2 of n for
every n ≤ 21·10^14, every non-zero denominator constant d (so the error of the literal `1e-08`
cancels) and every `fl` obeying the standard model.  Rounding to the nearest integer then
returns exactly n. -/
theorem from_satoshi_value_sat_close (fl : ℚ → ℚ) (hfl : StdModel fl) (d : ℚ) (hd : d ≠ 0) (n : ℕ)
    (hn : n ≤ 2100000000000000) :
    |fl (fl ((n : ℚ) * d) / d) - n| < 1 / 2 := by
  obtain ⟨e1, he1, h1⟩ := hfl ((n : ℚ) * d)
  obtain ⟨e3, he3, h3⟩ := hfl (fl ((n : ℚ) * d) / d)
  rw [h3, h1]
  have : (n : ℚ) * d * (1 + e1) / d * (1 + e3) = (n : ℚ) * (1 + e1) * (1 + e3) := by
    field_simp
  rw [this]
  exact two_roundings n e1 e3 (by positivity) (by exact_mod_cast hn) he1 he3

/-- a rational strictly within 1/2 of an integer rounds (in any round-to-nearest mode) to it:
its floor is n-1 or n and the fractional part decides for n -/
theorem nearest_int_of_close (y : ℚ) (n : ℤ) (h : |y - n| < 1 / 2) :
    ⌊y + 1 / 2⌋ = n := by
  have ha := abs_lt.mp h
  rw [Int.floor_eq_iff]
  constructor <;> linarith [ha.1, ha.2]

/-- T2: hence integer → Value → integer is the identity up to the total supply. -/
theorem value_sat_exact (fl : ℚ → ℚ) (hfl : StdModel fl) (d : ℚ) (hd : d ≠ 0) (n : ℕ) (hn : n ≤ 2100000000000000) :
    ⌊fl (fl ((n : ℚ) * d) / d) + 1 / 2⌋ = (n : ℤ) := by
  apply nearest_int_of_close
  exact_mod_cast from_satoshi_value_sat_close fl hfl d hd n hn

/-- the bound is not vacuous and not far from tight: 21·10^14 · (2u + u²) ≈ 0.466 < 1/2, while it
would fail for amounts above 2.26·10^15 -/
example : (2100000000000000 : ℚ) * (2 / 2^53 + 1 / 2^106) < 1 / 2 := by norm_num
example : ¬ ((2260000000000000 : ℚ) * (2 / 2^53 + 1 / 2^106) < 1 / 2) := by norm_num

/-- the identity function satisfies the standard model (non-vacuity of the hypothesis) -/
example : StdModel id := fun x => ⟨0, by norm_num, by simp⟩

/-! ## Text → integer (`value_to_satoshi('<decimal> BTC')`)

`Value('<x> BTC')` computes `float(x) * 1`, and `value_sat` divides by the literal `1e-08` and rounds.  That is three
rounding errors (the parse, the literal, the division), too many for the standard model alone at the top of the supply
range: 3·2^-53·21·10^14 > 1/2.  Two facts about round-to-nearest close the gap: the literal `1e-08` is much closer to 10^-8
than half an ulp (`lit1em8_close`, a computation), and above 2·10^7 coins the parse error is bounded by half an ulp of the
binade below 2^25 (`BinadeModel`).  Strings with another denominator symbol (`mBTC`, `µBTC`, …) used to multiply by one more
inexact constant (finding F52: off by one satoshi for large amounts); since the repair the library forms the decimal product
exactly and rounds it once, which is the same pipeline with x = n / 10^8 the product, so the theorem covers them too. -/

/-- round-to-nearest: below 2^k the absolute error is at most half a unit in the last place of that binade -/
def BinadeModel (fl : ℚ → ℚ) : Prop := ∀ (x : ℚ) (k : ℕ), |x| < 2 ^ k → |fl x - x| ≤ 2 ^ k / 2 ^ 54

theorem combine_errors (n e0 e1 e3 B : ℚ) (hn0 : 0 ≤ n) (h0 : |e0| ≤ 1 / 2^55)
    (hb : |e1 + e3 + e1 * e3 - e0| ≤ B) (hB : n * B < 1 / 2 * (1 - 1 / 2^55)) :
    |n * (1 + e1) / (1 + e0) * (1 + e3) - n| < 1 / 2 := by
  have a0 := abs_le.mp h0
  have hpos : 0 < 1 + e0 := by
    have : (1:ℚ)/2^55 < 1 := by norm_num
    linarith [a0.1]
  have key : n * (1 + e1) / (1 + e0) * (1 + e3) - n = n * (e1 + e3 + e1 * e3 - e0) / (1 + e0) := by
    field_simp; ring
  rw [key, abs_div, abs_of_pos hpos, div_lt_iff₀ hpos, abs_mul, abs_of_nonneg hn0]
  calc n * |e1 + e3 + e1 * e3 - e0| ≤ n * B := mul_le_mul_of_nonneg_left hb hn0
    _ < 1 / 2 * (1 - 1 / 2^55) := hB
    _ ≤ 1 / 2 * (1 + e0) := by nlinarith [a0.1]

theorem err_bound (e0 e1 e3 c : ℚ) (hc0 : 0 ≤ c) (h0 : |e0| ≤ 1 / 2^55) (h1 : |e1| ≤ c) (h3 : |e3| ≤ 1 / 2^53) :
    |e1 + e3 + e1 * e3 - e0| ≤ c + 1 / 2^53 + c / 2^53 + 1 / 2^55 := by
  have t1 : |e1 * e3| ≤ c / 2^53 := by
    rw [abs_mul]
    calc |e1| * |e3| ≤ c * (1/2^53) := mul_le_mul h1 h3 (abs_nonneg _) hc0
      _ = c / 2^53 := by ring
  calc |e1 + e3 + e1 * e3 - e0| ≤ |e1 + e3 + e1 * e3| + |e0| := abs_sub _ _
    _ ≤ |e1 + e3| + |e1 * e3| + |e0| := by gcongr; exact abs_add_le _ _
    _ ≤ |e1| + |e3| + |e1 * e3| + |e0| := by gcongr; exact abs_add_le _ _
    _ ≤ c + 1 / 2^53 + c / 2^53 + 1 / 2^55 := by linarith

/-- the binary64 literal `1e-08` (written out in `BtcModel/Amount.lean`, compared with the binary64 model and with CPython by
the driver op `amt_lit`) is within relative distance 2^-55 of 10^-8 -/
theorem lit1em8_close : ∃ e0 : ℚ, |e0| ≤ 1 / 2^55 ∧ Btc.lit1em8 = 1 / 10^8 * (1 + e0) := by
  refine ⟨Btc.lit1em8 * 10^8 - 1, ?_, ?_⟩
  · unfold Btc.lit1em8; rw [abs_le]; constructor <;> norm_num
  · unfold Btc.lit1em8; norm_num

/-- T3: text → integer.  For every whole number of satoshi n ≤ 21·10^14 written as a decimal number of coins x = n / 10^8,
`round(float(x) * 1 / 1e-08)` lies strictly within 1/2 of n — for every rounding function that obeys the standard model and
the half-ulp bound and leaves representable numbers alone, and every constant `d` as close to 10^-8 as the literal is. -/
theorem parse_value_sat_close (fl : ℚ → ℚ) (hfl : StdModel fl) (hbin : BinadeModel fl) (hidem : ∀ x, fl (fl x) = fl x) (d : ℚ)
    (hd : ∃ e0 : ℚ, |e0| ≤ 1 / 2^55 ∧ d = 1 / 10^8 * (1 + e0)) (n : ℕ) (hn : n ≤ 2100000000000000) :
    |fl (fl (fl ((n : ℚ) / 10^8) * 1) / d) - n| < 1 / 2 := by
  rw [mul_one, hidem]
  obtain ⟨e0, he0, rfl⟩ := hd
  obtain ⟨e3, he3, h3⟩ := hfl (fl ((n : ℚ) / 10^8) / (1 / 10^8 * (1 + e0)))
  have hpos : 0 < 1 + e0 := by
    have := (abs_le.mp he0).1
    have : (1:ℚ)/2^55 < 1 := by norm_num
    linarith
  have hnq : (0:ℚ) ≤ n := by positivity
  have hnq' : (n:ℚ) ≤ 2100000000000000 := by exact_mod_cast hn
  by_cases hsmall : n ≤ 2000000000000000
  · obtain ⟨e1, he1, h1⟩ := hfl ((n : ℚ) / 10^8)
    rw [h3, h1]
    have : (n : ℚ) / 10^8 * (1 + e1) / (1 / 10^8 * (1 + e0)) * (1 + e3) = (n : ℚ) * (1 + e1) / (1 + e0) * (1 + e3) := by
      field_simp
    rw [this]
    have hs : (n:ℚ) ≤ 2000000000000000 := by exact_mod_cast hsmall
    refine combine_errors n e0 e1 e3 _ hnq he0 (err_bound e0 e1 e3 (1/2^53) (by norm_num) he0 he1 he3) ?_
    calc (n:ℚ) * (1/2^53 + 1/2^53 + 1/2^53/2^53 + 1/2^55) ≤ 2000000000000000 * (1/2^53 + 1/2^53 + 1/2^53/2^53 + 1/2^55) := by
          apply mul_le_mul_of_nonneg_right hs (by norm_num)
      _ < 1 / 2 * (1 - 1 / 2^55) := by norm_num
  · -- the top of the range: x = n / 10^8 lies in [2·10^7, 2^25), where half an ulp is 2^-29
    have hbig : (2000000000000000:ℚ) < n := by exact_mod_cast (Nat.lt_of_not_le hsmall)
    set x : ℚ := (n : ℚ) / 10^8 with hx
    have hx0 : (20000000:ℚ) < x := by rw [hx, lt_div_iff₀ (by norm_num)]; linarith
    have hx1 : |x| < 2^25 := by
      rw [abs_of_pos (by linarith)]; rw [hx, div_lt_iff₀ (by norm_num)]; linarith
    have habs := hbin x 25 hx1
    have hxpos : 0 < x := by linarith
    set e1 : ℚ := (fl x - x) / x with he1def
    have h1 : fl x = x * (1 + e1) := by rw [he1def]; field_simp; ring
    have he1 : |e1| ≤ 1 / (2^29 * 20000000) := by
      rw [he1def, abs_div, abs_of_pos hxpos, div_le_iff₀ hxpos]
      calc |fl x - x| ≤ 2^25 / 2^54 := habs
        _ = 1 / (2^29 * 20000000) * 20000000 := by norm_num
        _ ≤ 1 / (2^29 * 20000000) * x := by apply mul_le_mul_of_nonneg_left (le_of_lt hx0) (by norm_num)
    rw [h3, h1]
    have : x * (1 + e1) / (1 / 10^8 * (1 + e0)) * (1 + e3) = (n : ℚ) * (1 + e1) / (1 + e0) * (1 + e3) := by
      rw [hx]; field_simp
    rw [this]
    refine combine_errors n e0 e1 e3 _ hnq he0 (err_bound e0 e1 e3 _ (by norm_num) he0 he1 he3) ?_
    calc (n:ℚ) * (1 / (2^29 * 20000000) + 1/2^53 + 1 / (2^29 * 20000000)/2^53 + 1/2^55)
          ≤ 2100000000000000 * (1 / (2^29 * 20000000) + 1/2^53 + 1 / (2^29 * 20000000)/2^53 + 1/2^55) := by
          apply mul_le_mul_of_nonneg_right hnq' (by norm_num)
      _ < 1 / 2 * (1 - 1 / 2^55) := by norm_num

/-- T4: hence the decimal text of every amount up to the total supply converts to exactly that many satoshi -/
theorem parse_value_sat_exact (fl : ℚ → ℚ) (hfl : StdModel fl) (hbin : BinadeModel fl) (hidem : ∀ x, fl (fl x) = fl x)
    (n : ℕ) (hn : n ≤ 2100000000000000) :
    ⌊fl (fl (fl ((n : ℚ) / 10^8) * 1) / Btc.lit1em8) + 1 / 2⌋ = (n : ℤ) := by
  apply nearest_int_of_close
  exact_mod_cast parse_value_sat_close fl hfl hbin hidem _ lit1em8_close n hn

/-- the hypotheses are satisfiable together -/
example : StdModel id ∧ BinadeModel id ∧ ∀ x : ℚ, id (id x) = id x :=
  ⟨fun x => ⟨0, by norm_num, by simp⟩, fun x k _ => by simp; positivity, fun _ => rfl⟩

end Btc.C17
