import BtcModel.Verify
/-!
# C02 — Transaction verification is sound and complete for standard inputs

> A transaction signed through the library with the correct private keys verifies, and
> verification succeeds only if every input carries at least the required number of signatures,
> each valid for a distinct listed public key over that input's digest. Changing anything the
> signatures commit to after signing (an output amount or script, an outpoint, a sequence, the
> locktime or version, an input amount for segwit), corrupting a signature, or supplying fewer
> than m signatures or signatures by keys outside the input's key set makes verification fail.

`verifyLoop` is the counting loop of `Input.verify`.  The digest part is C01; the ECDSA part is
C13; here: what acceptance by the loop implies and when it accepts.
-/
namespace Btc.C02
open Btc

/-- Generalised invariant: if the loop accepts from state (s,k,v) with `fuel` keys left, there is a
strictly increasing list of key positions in [k, k+fuel), long enough to reach m, each matched by
some signature index < S. -/
theorem loop_sound (m S : Nat) (ok : Nat → Nat → Bool) :
    ∀ fuel s k v, verifyLoop m S ok fuel s k v = true →
      ∃ ks : List Nat, v + ks.length ≥ m ∧ ks.Pairwise (· < ·) ∧
        ∀ x ∈ ks, k ≤ x ∧ x < k + fuel ∧ ∃ j, j < S ∧ ok j x = true := by
  intro fuel
  induction fuel with
  | zero =>
    intro s k v h
    unfold verifyLoop at h
    split at h
    · exact ⟨[], by simpa using ‹v ≥ m›, List.Pairwise.nil, by simp⟩
    · simp at h
  | succ f ih =>
    intro s k v h
    unfold verifyLoop at h
    split at h
    · exact ⟨[], by simpa using ‹v ≥ m›, List.Pairwise.nil, by simp⟩
    · rename_i hv
      simp only at h
      split at h
      · simp at h
      · rename_i hs
        split at h
        · rename_i hok
          obtain ⟨ks, hlen, hpw, hmem⟩ := ih (s + 1) (k + 1) (v + 1) h
          refine ⟨k :: ks, by simp; omega, ?_, ?_⟩
          · refine List.pairwise_cons.mpr ⟨?_, hpw⟩
            intro y hy; have := (hmem y hy).1; omega
          · intro x hx
            rcases List.mem_cons.mp hx with rfl | hx
            · exact ⟨Nat.le_refl _, by omega, s, by omega, hok⟩
            · obtain ⟨h1, h2, h3⟩ := hmem x hx
              exact ⟨by omega, by omega, h3⟩
        · split at h
          · rename_i hprev
            simp only [Bool.and_eq_true, decide_eq_true_eq] at hprev
            obtain ⟨ks, hlen, hpw, hmem⟩ := ih s (k + 1) (v + 1) h
            refine ⟨k :: ks, by simp; omega, ?_, ?_⟩
            · refine List.pairwise_cons.mpr ⟨?_, hpw⟩
              intro y hy; have := (hmem y hy).1; omega
            · intro x hx
              rcases List.mem_cons.mp hx with rfl | hx
              · exact ⟨Nat.le_refl _, by omega, s - 1, by omega, hprev.2⟩
              · obtain ⟨h1, h2, h3⟩ := hmem x hx
                exact ⟨by omega, by omega, h3⟩
          · obtain ⟨ks, hlen, hpw, hmem⟩ := ih s (k + 1) v h
            refine ⟨ks, hlen, hpw, ?_⟩
            intro x hx
            obtain ⟨h1, h2, h3⟩ := hmem x hx
            exact ⟨by omega, by omega, h3⟩

/-- T1 (soundness): acceptance implies at least m **distinct listed key positions**, each with a
signature of the input that verifies under it — for any numbers of keys and signatures. -/
theorem inputVerify_sound (m K S : Nat) (ok : Nat → Nat → Bool) (h : inputVerify m K S ok = true) :
    ∃ ks : List Nat, ks.length ≥ m ∧ ks.Pairwise (· < ·) ∧
      ∀ x ∈ ks, x < K ∧ ∃ j, j < S ∧ ok j x = true := by
  unfold inputVerify at h
  split at h
  · simp at h
  · obtain ⟨ks, hlen, hpw, hmem⟩ := loop_sound m S ok K 0 0 0 h
    exact ⟨ks, by omega, hpw, fun x hx => by
      obtain ⟨_, h2, h3⟩ := hmem x hx; exact ⟨by omega, h3⟩⟩

/-- T2: without signatures nothing verifies; with no valid (signature, key) pair at all and m ≥ 1
nothing verifies — fewer than m signatures, or signatures by keys outside the key set, fail. -/
theorem no_signatures (m K : Nat) (ok : Nat → Nat → Bool) : inputVerify m K 0 ok = false := by
  simp [inputVerify]

theorem no_valid_pair (m K S : Nat) (ok : Nat → Nat → Bool) (hm : 1 ≤ m) (hno : ∀ j x, ok j x = false) :
    inputVerify m K S ok = false := by
  cases hv : inputVerify m K S ok with
  | false => rfl
  | true =>
    obtain ⟨ks, hlen, _, hmem⟩ := inputVerify_sound m K S ok hv
    cases ks with
    | nil => simp at hlen; omega
    | cons x _ =>
      obtain ⟨_, j, _, hj⟩ := hmem x (by simp)
      rw [hno] at hj; cases hj

theorem fewer_than_m_valid_keys (m K S : Nat) (ok : Nat → Nat → Bool) (good : List Nat)
    (hgood : ∀ x, (∃ j, j < S ∧ ok j x = true) → x ∈ good) (hlt : good.length < m) :
    inputVerify m K S ok = false := by
  cases hv : inputVerify m K S ok with
  | false => rfl
  | true =>
    obtain ⟨ks, hlen, hpw, hmem⟩ := inputVerify_sound m K S ok hv
    have hsub : ∀ x ∈ ks, x ∈ good := fun x hx => hgood x (hmem x hx).2
    have hnd' : ks.Nodup := by
      apply List.Pairwise.imp _ hpw
      intro a b hab; omega
    have : ks.length ≤ good.length := List.Nodup.length_le_of_subset hnd' hsub
    omega

/-- the loop from a state where the remaining signatures sit exactly at the next key positions -/
theorem loop_complete (m S : Nat) (ok : Nat → Nat → Bool) (pos : Nat → Nat) :
    ∀ fuel s k v, (∀ j, j < S → ok j (pos j) = true) → (∀ j x, ok j x = true → x = pos j) →
      (∀ i j, i < j → j < S → pos i < pos j) → (∀ j, j < S → pos j < k + fuel) →
      (∀ j, s ≤ j → j < S → k ≤ pos j) → (∀ j, j < s → pos j < k) → s ≤ S → v + (S - s) ≥ m →
      verifyLoop m S ok fuel s k v = true := by
  intro fuel
  induction fuel with
  | zero =>
    intro s k v hok huniq hmono hrange hnext hpast hsS hcount
    unfold verifyLoop
    split
    · rfl
    · rename_i hv
      -- no keys left: all signatures from s on would need positions < k, but they are ≥ k
      exfalso
      have hs : s < S := by omega
      have := hrange s hs
      have := hnext s (Nat.le_refl _) hs
      omega
  | succ f ih =>
    intro s k v hok huniq hmono hrange hnext hpast hsS hcount
    unfold verifyLoop
    split
    · rfl
    · rename_i hv
      have hs : s < S := by omega
      simp only
      rw [if_neg (by omega)]
      by_cases hk : ok s k = true
      · rw [if_pos hk]
        have hpk : k = pos s := huniq s k hk
        apply ih (s + 1) (k + 1) (v + 1) hok huniq hmono
        · intro j hj; have := hrange j hj; omega
        · intro j hsj hj
          have : pos s < pos j := hmono s j (by omega) hj
          omega
        · intro j hj
          by_cases hjs : j = s
          · subst hjs; omega
          · have := hpast j (by omega); omega
        · omega
        · omega
      · rw [if_neg hk]
        have hprev : ¬ ((decide (s > 0) && ok (s - 1) k) = true) := by
          intro hc
          simp only [Bool.and_eq_true, decide_eq_true_eq] at hc
          have h0 : s > 0 := hc.1
          have h1 := huniq (s - 1) k hc.2
          have h2 := hpast (s - 1) (by omega)
          omega
        rw [if_neg hprev]
        apply ih s (k + 1) v hok huniq hmono
        · intro j hj; have := hrange j hj; omega
        · intro j hsj hj
          have h1 := hnext j hsj hj
          by_cases hjs : j = s
          · subst hjs
            have : k ≠ pos j := fun e => hk (e ▸ hok j hj)
            omega
          · have := hmono s j (by omega) hj
            have := hnext s (Nat.le_refl _) hs
            omega
        · intro j hj; have := hpast j hj; omega
        · omega
        · omega

/-- T3 (completeness): if the S signatures are by distinct keys of the input, stored in key order
(the invariant `Transaction.sign` maintains: signature j is valid exactly for key `pos j`,
`pos` strictly increasing), then the input verifies as soon as S ≥ m (and S ≥ 1). -/
theorem inputVerify_complete (m K S : Nat) (ok : Nat → Nat → Bool) (pos : Nat → Nat)
    (hok : ∀ j, j < S → ok j (pos j) = true) (huniq : ∀ j x, ok j x = true → x = pos j)
    (hmono : ∀ i j, i < j → j < S → pos i < pos j) (hrange : ∀ j, j < S → pos j < K)
    (hS : 1 ≤ S) (hm : m ≤ S) : inputVerify m K S ok = true := by
  unfold inputVerify
  rw [if_neg (by omega)]
  exact loop_complete m S ok pos K 0 0 0 hok huniq hmono (by simpa using hrange) (by intros; omega) (by intro j hj; omega) (by omega) (by omega)

-- non-vacuity: a 2-of-3 with signatures by keys 0 and 2 is accepted; one signature is not enough
example : inputVerify 2 3 2 (fun j x => (j == 0 && x == 0) || (j == 1 && x == 2)) = true := by decide
example : inputVerify 2 3 1 (fun j x => (j == 0 && x == 0)) = false := by decide
/-- T4 (hash types, repair F101): with the comparison `okTyped` every signature that counts names
the digest that was checked - acceptance implies m distinct key positions, each with a signature
of hash type `h` that is valid under it. -/
theorem typed_sound (m K S h : Nat) (ht : Nat → Nat) (valid : Nat → Nat → Bool)
    (hv : inputVerify m K S (okTyped h ht valid) = true) :
    ∃ ks : List Nat, ks.length ≥ m ∧ ks.Pairwise (· < ·) ∧
      ∀ x ∈ ks, x < K ∧ ∃ j, j < S ∧ ht j = h ∧ valid j x = true := by
  obtain ⟨ks, h1, h2, h3⟩ := inputVerify_sound m K S _ hv
  refine ⟨ks, h1, h2, fun x hx => ?_⟩
  obtain ⟨hx1, j, hj, hok⟩ := h3 x hx
  simp only [okTyped, Bool.and_eq_true, beq_iff_eq] at hok
  exact ⟨hx1, j, hj, hok.1, hok.2⟩

/-- ... and signatures that all carry another hash type byte verify nothing, however valid they
are as ECDSA signatures over the digest that was computed. -/
theorem other_hash_type_never_counts (m K S h : Nat) (ht : Nat → Nat) (valid : Nat → Nat → Bool)
    (hm : 1 ≤ m) (hne : ∀ j, ht j ≠ h) : inputVerify m K S (okTyped h ht valid) = false := by
  apply no_valid_pair m K S _ hm
  intro j x
  simp [okTyped, hne j]

/-- T5 (coinbase exemption, repair F102): when a transaction verifies, every input that is not
typed coinbase passed the signature loop, and an input typed coinbase (all-zero previous
transaction id) is the only input and has the null output number - zeroing the transaction id of
an outpoint does not switch the signature check off. -/
theorem coinbase_exempt_only_alone (ins : List VIn) (hv : txVerify ins = true) :
    ∀ i ∈ ins, (i.coinbaseTyped = true → ins.length = 1 ∧ i.vout = 0xffffffff) ∧
      (i.coinbaseTyped = false → i.sigsOk = true) := by
  intro i hi
  unfold txVerify at hv
  rw [List.all_eq_true] at hv
  have h := hv i hi
  constructor
  · intro hc
    simp only [hc, if_true, Bool.and_eq_true, beq_iff_eq] at h
    exact h
  · intro hc
    simpa [hc] using h

/-- the hypotheses of T5 are met by a signed single-input transaction and not by the same
transaction with the outpoint's transaction id zeroed (output number 1) -/
example : txVerify [{ coinbaseTyped := false, vout := 1, sigsOk := true }] = true ∧
    txVerify [{ coinbaseTyped := true, vout := 1, sigsOk := true }] = false ∧
    txVerify [{ coinbaseTyped := true, vout := 0xffffffff, sigsOk := true }, { coinbaseTyped := false, vout := 0, sigsOk := true }] = false := by
  decide

/-- a non-positive threshold with at least one signature verifies vacuously in the loop as it is -/
example : inputVerify 0 3 1 (fun _ _ => false) = true := by decide

end Btc.C02
