import BtcModel.KeyLogic
import BtcModel.Gen.Networks
import BtcProofs.Lemmas.Bytes
import Mathlib.Data.ZMod.Basic
import Mathlib.Algebra.Field.ZMod
import Mathlib.Tactic.Ring
import Mathlib.Tactic.LinearCombination
/-!
# C04 — Private key -> public key -> address mapping is exact; invalid keys are refused

> For every valid private key the library reports the secp256k1 public point of that scalar, with
> compressed and uncompressed forms that describe the same point, and the addresses it derives are
> exactly the standard encodings of that key's hash for the chosen network, script type and
> encoding. Values that are not keys (scalars outside [1, n-1], points not on the curve) are
> refused instead of producing a key object and an address nobody can spend from.

Decision logic of key validation (`BtcModel/KeyLogic.lean`, the code the driver runs) and table
theorems about the generated network table.  Point multiplication and the hash functions are
executable reference code compared with the library on every run.
-/
namespace Btc.C04
open Btc

theorem acceptPoint_some (p x y : Nat) (odd : Bool) (q : Nat × Nat) (h : acceptPoint p x y odd = some q) :
    q = (x, y) ∧ onCurveP p x y = true ∧ (y % 2 == 1) = odd := by
  unfold acceptPoint at h
  split at h
  · rename_i hc
    simp only [Bool.and_eq_true, beq_iff_eq] at hc
    cases h
    exact ⟨rfl, hc.1, hc.2⟩
  · cases h

/-- T1 (unconditional, for *any* square-root routine): whatever `decodePubWith` accepts is a point
on the curve with both coordinates below p. -/
theorem decodePub_sound (sqrt : Nat → Option Nat) (p : Nat) (b : Bytes) (x y : Nat)
    (h : decodePubWith sqrt p b = some (x, y)) : onCurveP p x y = true := by
  unfold decodePubWith at h
  cases b with
  | nil => cases h
  | cons pre rest =>
    simp only at h
    split at h
    · unfold decompressWith at h
      split at h
      · cases h
      · split at h
        · cases h
        · obtain ⟨hq, hc, _⟩ := acceptPoint_some _ _ _ _ _ h
          cases hq; exact hc
    · split at h
      · split at h
        · rename_i hc; cases h; exact hc
        · cases h
      · cases h

/-- … and for compressed encodings the parity of y is the one the prefix states. -/
theorem decodePub_parity (sqrt : Nat → Option Nat) (p : Nat) (pre : Byte) (rest : Bytes) (x y : Nat)
    (hp : pre = 2 ∨ pre = 3) (hl : rest.length = 32)
    (h : decodePubWith sqrt p (pre :: rest) = some (x, y)) : (y % 2 == 1) = (pre == 3) := by
  unfold decodePubWith at h
  have hcond : ((pre == 2 || pre == 3) && rest.length == 32) = true := by
    rcases hp with rfl | rfl <;> simp [hl]
  simp only [hcond, if_true] at h
  unfold decompressWith at h
  split at h
  · cases h
  · split at h
    · cases h
    · obtain ⟨hq, _, hpar⟩ := acceptPoint_some _ _ _ _ _ h
      cases hq; exact hpar

/-- T2: a private key is accepted exactly when it is a scalar in [1, n-1] -/
theorem secretOk_iff (d : Nat) : secretOk d = true ↔ 1 ≤ d ∧ d < curveN := by
  unfold secretOk; simp

example : secretOk 0 = false ∧ secretOk curveN = false ∧ secretOk (curveN - 1) = true ∧ secretOk 1 = true := by decide

/-- T3: the uncompressed encoding of an on-curve point decodes to that point (any sqrt routine). -/
theorem decodePub_serU (sqrt : Nat → Option Nat) (q : Nat × Nat) (h : onCurveP curveP q.1 q.2 = true) :
    decodePubWith sqrt curveP (serU q) = some q := by
  obtain ⟨x, y⟩ := q
  unfold onCurveP at h
  simp only [Bool.and_eq_true, decide_eq_true_eq, beq_iff_eq] at h
  obtain ⟨⟨hx, hy⟩, hc⟩ := h
  have hx' : x < 256 ^ 32 := by unfold curveP at hx; omega
  have hy' : y < 256 ^ 32 := by unfold curveP at hy; omega
  unfold decodePubWith serU
  have hlen : (beBytes x 32 ++ beBytes y 32).length = 64 := by simp [beBytes]
  have h4 : (((4 : Byte) == 2 || (4 : Byte) == 3) && (beBytes x 32 ++ beBytes y 32).length == 32) = false := by
    rw [hlen]; decide
  have h5 : ((4 : Byte) == 4 && (beBytes x 32 ++ beBytes y 32).length == 64) = true := by
    rw [hlen]; decide
  simp only [h4, h5, Bool.false_eq_true, if_false, if_true]
  have e1 : beVal ((beBytes x 32 ++ beBytes y 32).take 32) = x := by
    have : (beBytes x 32 ++ beBytes y 32).take 32 = beBytes x 32 := by simp [beBytes]
    rw [this]; unfold beVal beBytes; rw [List.reverse_reverse, leVal_leBytes, Nat.mod_eq_of_lt hx']
  have e2 : beVal ((beBytes x 32 ++ beBytes y 32).drop 32) = y := by
    have : (beBytes x 32 ++ beBytes y 32).drop 32 = beBytes y 32 := by simp [beBytes]
    rw [this]; unfold beVal beBytes; rw [List.reverse_reverse, leVal_leBytes, Nat.mod_eq_of_lt hy']
  simp only [e1, e2]
  have : onCurveP curveP x y = true := by
    unfold onCurveP; simp [hx, hy, hc]
  rw [if_pos this]

/-- in a field of odd characteristic the two square roots of y² are y and -y: if r² ≡ y² (mod p),
p prime, 0 < r, y < p, then r = y or r = p - y. -/
theorem root_unique (p : Nat) [hp : Fact p.Prime] (r y : Nat) (hr : r < p) (hy : y < p)
    (h : r * r % p = y * y % p) : r = y ∨ r + y = p ∨ (r = 0 ∧ y = 0) := by
  have hz : ((r : ZMod p)) * r = (y : ZMod p) * y := by
    have := (ZMod.natCast_eq_natCast_iff' (r * r) (y * y) p).mpr h
    push_cast at this; exact this
  have hf : ((r : ZMod p) - y) * ((r : ZMod p) + y) = 0 := by linear_combination hz
  rcases mul_eq_zero.mp hf with h1 | h1
  · left
    have : (r : ZMod p) = (y : ZMod p) := sub_eq_zero.mp h1
    have := (ZMod.natCast_eq_natCast_iff' r y p).mp this
    rw [Nat.mod_eq_of_lt hr, Nat.mod_eq_of_lt hy] at this; exact this
  · have : ((r + y : ℕ) : ZMod p) = 0 := by push_cast; exact h1
    have hd := (ZMod.natCast_eq_zero_iff (r + y) p).mp this
    obtain ⟨k, hk⟩ := hd
    have hk2 : k = 0 ∨ k = 1 := by
      rcases k with _ | _ | k
      · left; rfl
      · right; rfl
      · exfalso
        have h2 : p * 2 ≤ p * (k + 1 + 1) := Nat.mul_le_mul_left p (by omega)
        omega
    rcases hk2 with rfl | rfl
    · right; right; omega
    · right; left; omega

/-- T4: with a square-root routine that returns *a* root of every square, and p an odd prime, the
compressed encoding of an on-curve point decodes to that same point — compressed and uncompressed
forms describe one point. -/
theorem decodePub_serC (sqrt : Nat → Option Nat) [Fact curveP.Prime]
    (hsqrt : ∀ a r0, r0 < curveP → r0 * r0 % curveP = a → ∃ r, sqrt a = some r ∧ r < curveP ∧ r * r % curveP = a)
    (q : Nat × Nat) (h : onCurveP curveP q.1 q.2 = true) (hy0 : q.2 ≠ 0) :
    decodePubWith sqrt curveP (serC q) = some q := by
  obtain ⟨x, y⟩ := q
  have hcopy := h
  unfold onCurveP at h
  simp only [Bool.and_eq_true, decide_eq_true_eq, beq_iff_eq] at h
  obtain ⟨⟨hx, hy⟩, hc⟩ := h
  have hx' : x < 256 ^ 32 := by unfold curveP at hx; omega
  simp only at hy0
  unfold decodePubWith serC
  simp only
  have hlen : (beBytes x 32).length = 32 := by simp [beBytes]
  have hpre : (((if y % 2 = 0 then (2 : Byte) else 3) == 2 || (if y % 2 = 0 then (2 : Byte) else 3) == 3) &&
      (beBytes x 32).length == 32) = true := by
    rw [hlen]; split <;> decide
  rw [if_pos hpre]
  have ev : beVal (beBytes x 32) = x := by
    unfold beVal beBytes; rw [List.reverse_reverse, leVal_leBytes, Nat.mod_eq_of_lt hx']
  rw [ev]
  unfold decompressWith
  rw [if_neg (by omega)]
  obtain ⟨r, hr1, hr2, hr3⟩ := hsqrt ((x * x % curveP * x + 7) % curveP) y hy hc
  rw [hr1]
  simp only
  have hodd : ((if y % 2 = 0 then (2 : Byte) else 3) == 3) = (y % 2 == 1) := by
    split
    · rename_i h0; simp [h0]
    · rename_i h0; have : y % 2 = 1 := by omega
      simp [this]
  rw [hodd]
  have hroot := root_unique curveP r y hr2 hy (by rw [hr3, hc])
  have hpodd : curveP % 2 = 1 := by decide
  have hsel : pickRoot curveP r (y % 2 == 1) = y := by
    unfold pickRoot
    rcases hroot with rfl | hsum | ⟨_, h0⟩
    · simp
    · have hne : ¬ (((r % 2 == 1) == (y % 2 == 1)) = true) := by
        intro hh
        have : r % 2 = y % 2 := by
          rcases Nat.mod_two_eq_zero_or_one r with a | a <;> rcases Nat.mod_two_eq_zero_or_one y with b | b <;> simp_all
        omega
      rw [if_neg hne]; omega
    · exact absurd h0 hy0
  rw [hsel]
  unfold acceptPoint
  simp only at hcopy
  simp [hcopy]

/-! ## Table theorems: the generated network table (re-checked whenever networks.json changes) -/

def netOf (name : String) : Option Gen.NetRec := Gen.networks.find? (·.name == name)

/-- published version bytes / HRPs of the four main chains -/
theorem bitcoin_prefixes : (netOf "bitcoin").map (fun n => (n.prefixAddress, n.prefixP2sh, n.bech32, n.prefixWif)) =
    some ([0x00], [0x05], "bc", [0x80]) := by decide
theorem testnet_prefixes : (netOf "testnet").map (fun n => (n.prefixAddress, n.prefixP2sh, n.bech32, n.prefixWif)) =
    some ([0x6f], [0xc4], "tb", [0xef]) := by decide
theorem litecoin_prefixes : (netOf "litecoin").map (fun n => (n.prefixAddress, n.prefixP2sh, n.bech32, n.prefixWif)) =
    some ([0x30], [0x32], "ltc", [0xb0]) := by decide
theorem dogecoin_prefixes : (netOf "dogecoin").map (fun n => (n.prefixAddress, n.prefixP2sh, n.prefixWif)) =
    some ([0x1e], [0x16], [0x9e]) := by decide

/-- within every network the P2PKH and P2SH version bytes differ (an address never reads as both) -/
theorem p2pkh_p2sh_distinct : Gen.networks.all (fun n => n.prefixAddress != n.prefixP2sh) = true := by decide

end Btc.C04
