import BtcProofs.Lemmas.Ledger
/-!
# C08 — Wallet ledger stays consistent over any history and survives reopening

> After any sequence of wallet operations (creating keys, receiving outputs, sending, sweeping,
> importing or deleting transactions, closing and reopening the database) the reported balance
> equals the sum of the wallet's unspent outputs, which equals the sum of the per-key balances,
> and an output consumed by a transaction the wallet has sent is never listed as unspent or
> selected again. Stored transactions reload with the same id, inputs, outputs, amounts and
> serialization.

`Btc.Ledger` transcribes the table updates of the anchored methods.  The theorems quantify over
**every** list of operations (`run init ops`); `sweep`, `send_to`, `send` and an imported
transaction that is then sent are all the operation `send` of the model (they differ in how the
transaction is built — property C07 — not in what is recorded).  The differential run replays
random histories on real `Wallet` objects and compares `utxos()`, `balance()`, the per-key
balances (same object and a second object on the same database) and `transaction(txid)` with the
model after every operation.
-/
namespace Btc.C08
open Btc.Ledger

/-- the invariant holds in every reachable state -/
theorem reachable_inv (ops : List Op) : Inv (run init ops) := inv_run inv_init ops

/-- T1: `balance()` reports the sum of the unspent outputs, in every reachable state, and does
not change the set of unspent outputs. -/
theorem balance_eq_unspent (ops : List Op) :
    (balance (run init ops)).2 = total (run init ops) ∧
    unspent (balance (run init ops)).1 = unspent (run init ops) := ⟨rfl, rfl⟩

theorem find_keyBal (f : Nat → Nat) (k : Nat) : ∀ (keys : List Nat), k ∈ keys →
    ((keys.map fun k' => (k', f k')).find? fun p => p.1 == k) = some (k, f k)
  | [], h => by simp at h
  | a :: l, h => by
    by_cases e : a = k
    · subst e; simp
    · have hl : k ∈ l := by
        rcases List.mem_cons.mp h with h | h
        · exact absurd h.symm e
        · exact h
      simp only [List.map_cons, List.find?_cons]
      rw [show ((a, f a).1 == k) = false by simpa using e]
      exact find_keyBal f k l hl

/-- T2: in every reachable state each key's stored balance is the sum of that key's unspent
outputs, and the per-key balances add up to the sum of all unspent outputs (= `balance()`). -/
theorem keybal_consistent (ops : List Op) :
    (∀ k ∈ (run init ops).keys, keyBalOf (run init ops) k = keyTotal (run init ops) k) ∧
    (((run init ops).keyBal.map (·.2)).sum = total (run init ops)) := by
  have h := reachable_inv ops
  generalize run init ops = st at h
  constructor
  · intro k hk
    unfold keyBalOf
    rw [h.balOk, find_keyBal (keyTotal st) k st.keys hk]; rfl
  · rw [h.balOk, List.map_map]
    exact sum_keyTotalL st.keys h.nodupKeys st.outs h.keysOk

/-- T3: in every reachable state, an outpoint that a stored transaction consumes is not listed
as unspent. -/
theorem consumed_not_unspent (ops : List Op) :
    ∀ i ∈ (run init ops).ins, isUnspentOutpoint (run init ops) i.ptx i.pn = false := by
  have h := reachable_inv ops
  generalize run init ops = st at h
  intro i hi
  rw [Bool.eq_false_iff]
  intro hu
  unfold isUnspentOutpoint at hu
  simp only [List.any_eq_true, Bool.and_eq_true, beq_iff_eq] at hu
  obtain ⟨o, ho, h1, h2⟩ := hu
  unfold unspent unspentL at ho
  rw [List.mem_filter] at ho
  have := h.spentOk o ho.1 ((spentInDb_iff _ _ _).mpr ⟨i, hi, h1.symm, h2.symm⟩)
  simp [this] at ho

/-- the inputs of a stored transaction stay recorded until that transaction is deleted -/
theorem ins_persist (st : St) (op : Op) (txid : Nat) (hop : op ≠ Op.delete txid) :
    ∀ i ∈ st.ins, i.tx = txid → i ∈ (step st op).1.ins := by
  intro i hi ht
  cases op with
  | newKey k => simp only [step, newKey]; split <;> exact hi
  | utxoAdd key value t n conf =>
    simp only [step, utxoAdd]
    split
    · exact hi
    · simp only [balanceUpdate]; split <;> exact hi
  | send t b =>
    simp only [step, send]
    split
    · simp only [balanceUpdate]; exact List.mem_append_left _ hi
    · exact hi
  | delete t =>
    simp only [step, delete]
    split
    · simp only [balanceUpdate, List.mem_filter, bne_iff_ne, ne_eq]
      refine ⟨hi, ?_⟩
      intro e
      exact hop (by rw [← e, ht])
    · exact hi
  | reopen => exact hi
  | balance => exact hi

theorem ins_persist_run (txid : Nat) (ops : List Op) (hops : ∀ op ∈ ops, op ≠ Op.delete txid) :
    ∀ (st : St), ∀ i ∈ st.ins, i.tx = txid → i ∈ (run st ops).ins := by
  induction ops with
  | nil => intro st i hi _; exact hi
  | cons op ops ih =>
    intro st i hi ht
    exact ih (fun o ho => hops o (List.mem_cons_of_mem _ ho)) _ i
      (ins_persist st op txid (hops op (List.mem_cons_self)) i hi ht) ht

/-- T4 (never selected again): once `send` has recorded a transaction, the outputs it consumed
are not unspent in any later state, whatever operations follow, until that transaction is
deleted. -/
theorem consumed_never_again (ops1 ops2 : List Op) (txid : Nat) (b : TxBody)
    (hs : (send (run init ops1) txid b).2 = Status.ok)
    (hops : ∀ op ∈ ops2, op ≠ Op.delete txid) :
    ∀ p ∈ outpoints b, isUnspentOutpoint (run init (ops1 ++ [Op.send txid b] ++ ops2)) p.1 p.2 = false := by
  intro p hp
  have hrun : run init (ops1 ++ [Op.send txid b] ++ ops2) = run (send (run init ops1) txid b).1 ops2 := by
    simp [run, List.foldl_append, step]
  -- the input record of `p` exists right after the send
  have hrec : ∃ i ∈ (send (run init ops1) txid b).1.ins, i.tx = txid ∧ i.ptx = p.1 ∧ i.pn = p.2 := by
    unfold send at hs ⊢
    by_cases g : sendGuard (run init ops1) txid b = true
    · simp only [g, if_true, balanceUpdate]
      unfold outpoints at hp
      simp only [List.mem_map] at hp
      obtain ⟨x, hx, rfl⟩ := hp
      exact ⟨{ tx := txid, ptx := x.1, pn := x.2.1 },
        List.mem_append_right _ (by unfold inRecs; exact List.mem_map.mpr ⟨x, hx, rfl⟩), rfl, rfl, rfl⟩
    · simp [g] at hs
  obtain ⟨i, hi, ht, h1, h2⟩ := hrec
  have hlater := ins_persist_run txid ops2 hops _ i hi ht
  have := consumed_not_unspent (ops1 ++ [Op.send txid b] ++ ops2) i (hrun ▸ hlater)
  rw [h1, h2] at this
  exact this

/-- T5: closing and reopening changes nothing that is reported. -/
theorem reopen_same (st : St) :
    unspent (reopen st) = unspent st ∧ (balance (reopen st)).2 = (balance st).2 ∧
    (reopen st).keyBal = st.keyBal ∧ (∀ t, lookupTx (reopen st) t = lookupTx st t) :=
  ⟨rfl, rfl, rfl, fun _ => rfl⟩

theorem find_append_new (txs : List TxRec) (r : TxRec) (h : (txs.any fun x => x.txid == r.txid) = false) :
    ((txs ++ [r]).find? fun x => x.txid == r.txid) = some r := by
  rw [List.find?_append]
  have : (txs.find? fun x => x.txid == r.txid) = none := by
    rw [List.find?_eq_none]
    intro x hx
    have := List.any_eq_false.mp h x hx
    simpa using this
  rw [this]; simp

/-- T6: a transaction reloads as it was stored. -/
theorem stored_reloads (st : St) (txid : Nat) (b : TxBody) (hs : (send st txid b).2 = Status.ok) :
    lookupTx (send st txid b).1 txid = some b := by
  unfold send at hs ⊢
  by_cases g : sendGuard st txid b = true
  · simp only [g, if_true, balanceUpdate, lookupTx]
    have hf := (sendGuard_ok g).fresh
    unfold hasTx at hf
    rw [find_append_new st.txs { txid := txid, conf := 0, body := some b } hf]
    rfl
  · simp [g] at hs

/-- F23 (the defect repaired by the `fix:` commit): with the pinned `_balance_update`, which only
overwrote the cached group total when the group still had unspent outputs, a wallet that spends
its last output keeps reporting the old total. -/
theorem pinned_balance_stale :
    let st := (utxoAdd (newKey init 1).1 1 50000 7 0 3).1
    let spent : St := { st with outs := st.outs.map fun o => { o with spent := true } }
    (balanceUpdatePinned spent).cache = some 50000 ∧ total spent = 0 := by
  decide

/-- A replacement history: two stored transactions consume the same outpoint (the second was built
before the first was sent and is sent afterwards), then the first is deleted.  The outpoint stays
consumed - it is not listed as unspent and the balance is the replacement's change (an instance of
T3, which holds for every history; here with the figures) ... -/
theorem replacement_then_delete :
    let ops := [Op.newKey 1, Op.newKey 2, Op.utxoAdd 1 1000000 7 0 5,
      Op.send 8 { ins := [(7, 0, 1000000)], outs := [(100000, none), (899000, some 2)] },
      Op.send 9 { ins := [(7, 0, 1000000)], outs := [(100000, none), (895000, some 2)] },
      Op.delete 8]
    isUnspentOutpoint (run init ops) 7 0 = false ∧ total (run init ops) = 895000 := by
  decide

/-- ... whereas `delete` as it was before the repair F103 (every consumed output becomes unspent
again) lists the outpoint as unspent although the stored replacement consumes it. -/
theorem pinned_delete_frees_consumed :
    let st := run init [Op.newKey 1, Op.newKey 2, Op.utxoAdd 1 1000000 7 0 5,
      Op.send 8 { ins := [(7, 0, 1000000)], outs := [(100000, none), (899000, some 2)] },
      Op.send 9 { ins := [(7, 0, 1000000)], outs := [(100000, none), (895000, some 2)] }]
    isUnspentOutpoint (deletePinned st 8).1 7 0 = true ∧ spentInDb (deletePinned st 8).1 7 0 = true := by
  decide

/-- A parent is sent, its change is spent by a child, the parent is deleted and stored again (sent
again from the object the caller held): the change the stored child consumes is spent from the
start (repair F117) - an instance of T3 with the figures. -/
theorem parent_stored_again :
    let parent : TxBody := { ins := [(7, 0, 1000000)], outs := [(100000, none), (899000, some 2)] }
    let ops := [Op.newKey 1, Op.newKey 2, Op.newKey 3, Op.utxoAdd 1 1000000 7 0 5,
      Op.send 8 parent,
      Op.send 9 { ins := [(8, 1, 899000)], outs := [(200000, none), (698000, some 3)] },
      Op.delete 8, Op.send 8 parent]
    isUnspentOutpoint (run init ops) 8 1 = false ∧ total (run init ops) = 698000 := by
  decide

/-- the hypotheses of T4 are satisfiable: a history with a send that is accepted -/
example : (send (run init [Op.newKey 1, Op.newKey 2, Op.utxoAdd 1 50000 7 0 3]) 9
    { ins := [(7, 0, 50000)], outs := [(20000, none), (29000, some 2)] }).2 = Status.ok := by decide

example : total (run init [Op.newKey 1, Op.newKey 2, Op.utxoAdd 1 50000 7 0 3,
    Op.send 9 { ins := [(7, 0, 50000)], outs := [(20000, none), (29000, some 2)] }]) = 29000 := by decide

end Btc.C08
