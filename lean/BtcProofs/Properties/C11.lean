import BtcModel.Base58
import BtcModel.Bech32
import BtcProofs.Lemmas.Convert
import BtcProofs.Lemmas.Bech32
import BtcProofs.Lemmas.Bits
/-!
# C11 — Checksummed text encodings are canonical and corruption is rejected

> A Base58Check string (address, WIF private key, extended key, BIP38 key) or a Bech32/Bech32m
> address is accepted only if it is the canonical encoding of its payload with a correct checksum
> and a known version or prefix, and decoding followed by re-encoding returns the identical
> string. Strings that are not valid encodings - substituted, inserted, dropped or swapped
> characters, the wrong checksum constant, mixed case in Bech32, missing leading characters -
> raise an error; none is silently mapped to a payload.
-/
namespace Btc.C11
open Btc

/-! ## Base58 -/

theorem b58Index_b58Char : ∀ d : Fin 58, b58Index (b58Char d.val) = some d.val := by decide

theorem b58Char_of_index (c : Char) (i : Nat) (h : b58Index c = some i) : b58Char i = c := by
  unfold b58Index at h
  simp only at h
  split at h
  · rename_i hlt
    cases h
    unfold b58Char
    have hlen : b58Alphabet.length = 58 := by decide
    have hl : b58Alphabet.idxOf c < b58Alphabet.length := by omega
    simp only [List.getD, List.getElem?_eq_getElem hl, Option.getD_some]
    exact List.getElem_idxOf hl
  · cases h

theorem b58Index_lt (c : Char) (i : Nat) (h : b58Index c = some i) : i < 58 := by
  unfold b58Index at h
  simp only at h
  split at h
  · cases h; assumption
  · cases h

theorem mapM_index_map_char (ds : List Nat) (h : ∀ d ∈ ds, d < 58) :
    (ds.map b58Char).mapM b58Index = some ds := by
  induction ds with
  | nil => rfl
  | cons d ds ih =>
    have hd : d < 58 := h d (by simp)
    have := b58Index_b58Char ⟨d, hd⟩
    simp only at this
    simp [List.mapM_cons, this, ih (fun x hx => h x (by simp [hx]))]

theorem map_char_of_mapM_index (s : List Char) (ds : List Nat) (h : s.mapM b58Index = some ds) :
    ds.map b58Char = s ∧ ∀ d ∈ ds, d < 58 := by
  induction s generalizing ds with
  | nil => simp [List.mapM_nil] at h; subst h; simp
  | cons c cs ih =>
    simp only [List.mapM_cons] at h
    cases hc : b58Index c with
    | none => simp [hc] at h
    | some i =>
      cases hcs : cs.mapM b58Index with
      | none => simp [hc, hcs] at h
      | some rest =>
        simp [hc, hcs] at h
        subst h
        obtain ⟨h1, h2⟩ := ih rest hcs
        refine ⟨by simp [b58Char_of_index c i hc, h1], ?_⟩
        intro d hd
        simp at hd
        cases hd with
        | inl h => rw [h]; exact b58Index_lt c i hc
        | inr h => exact h2 d h

theorem map_toNat_ofNat (ds : List Nat) (h : ∀ d ∈ ds, d < 256) :
    (ds.map UInt8.ofNat).map (·.toNat) = ds := by
  induction ds with
  | nil => rfl
  | cons d ds ih =>
    have hd : d < 256 := h d (by simp)
    simp only [List.map_cons, List.map_map] at ih ⊢
    rw [ih (fun x hx => h x (by simp [hx]))]
    simp [UInt8.toNat_ofNat']; omega

/-- T1: decoding an encoded byte string returns it — every byte string, any number of leading
zero bytes. -/
theorem b58dec_b58enc (b : Bytes) : b58dec (b58enc b) = some b := by
  unfold b58dec b58enc
  have hlt : ∀ d ∈ convert 256 58 (b.map (·.toNat)), d < 58 := convert_lt 256 58 (by decide) _
  rw [mapM_index_map_char _ hlt]
  simp only [bind, Option.bind, pure]
  have hb : ∀ d ∈ b.map (·.toNat), d < 256 := by
    intro d hd; simp at hd; obtain ⟨x, _, rfl⟩ := hd; exact x.toNat_lt
  rw [convert_convert 256 58 (by decide) (by decide) _ hb]
  simp only [List.map_map, Option.some.injEq]
  have : (UInt8.ofNat ∘ fun x : UInt8 => x.toNat) = id := by funext x; simp
  rw [this, List.map_id]

/-- T2 (canonicity): an accepted string is *the* encoding of the payload it decodes to: no
padding, no dropped or extra leading `1`, no character outside the alphabet. -/
theorem b58enc_of_b58dec (s : List Char) (b : Bytes) (h : b58dec s = some b) : b58enc b = s := by
  unfold b58dec at h
  cases hds : s.mapM b58Index with
  | none => simp [hds, bind, Option.bind] at h
  | some ds =>
    simp [hds, bind, Option.bind, pure] at h
    subst h
    obtain ⟨hmap, hlt⟩ := map_char_of_mapM_index s ds hds
    unfold b58enc
    have h256 : ∀ d ∈ convert 58 256 ds, d < 256 := convert_lt 58 256 (by decide) _
    have : (List.map UInt8.ofNat (convert 58 256 ds)).map (·.toNat) = convert 58 256 ds :=
      map_toNat_ofNat _ h256
    rw [this, convert_convert 58 256 (by decide) (by decide) ds hlt, hmap]

/-- T3a: Base58Check decode ∘ encode, for any checksum function with at least 4 output bytes. -/
theorem b58checkDec_b58checkEnc (H : Bytes → Bytes) (hH : ∀ x, 4 ≤ (H x).length) (p : Bytes) :
    b58checkDec H (b58checkEnc H p) = some p := by
  unfold b58checkDec b58checkEnc
  rw [b58dec_b58enc]
  simp only [bind, Option.bind]
  have hl : ((H p).take 4).length = 4 := by have := hH p; simp; omega
  have hlen : (p ++ (H p).take 4).length = p.length + 4 := by simp [hl]
  rw [if_neg (by omega)]
  have e1 : (p ++ (H p).take 4).length - 4 = p.length := by omega
  rw [e1]
  simp

/-- T3b: accepted ⇒ canonical encoding with the correct checksum. -/
theorem b58checkEnc_of_b58checkDec (H : Bytes → Bytes) (s : List Char) (p : Bytes)
    (h : b58checkDec H s = some p) : b58checkEnc H p = s := by
  unfold b58checkDec at h
  cases hraw : b58dec s with
  | none => simp [hraw, bind, Option.bind] at h
  | some raw =>
    simp only [hraw, bind, Option.bind] at h
    split at h
    · cases h
    · split at h
      · rename_i hlen hchk
        cases h
        unfold b58checkEnc
        rw [← hchk, List.take_append_drop]
        exact b58enc_of_b58dec s raw hraw
      · cases h

/-- the repaired `change_base(s, 58, 256)` is the strict decoder -/
theorem changeBase58_eq_b58dec (s : List Char) : changeBase58 false s 0 = b58dec s := by
  unfold changeBase58 b58dec
  have : (fun c => b58IndexImpl false c) = b58Index := by
    funext c; unfold b58IndexImpl; cases b58Index c <;> simp
  simp [this]

/-- F27 witness: with the lower-case retry the string `9O` decodes (as `9o`), strictly it does not -/
theorem F27_witness : changeBase58 true ['9', 'O'] 0 ≠ b58dec ['9', 'O'] := by decide +kernel

/-- F05 witness: padding to 25 bytes accepts an address whose leading `1` was dropped -/
theorem F05_witness :
    (changeBase58 false "AGNa15ZQXAZUgFiqJ2i7Z2DPU2J6hW62i".toList 25).map List.length = some 25 ∧
    (b58dec "AGNa15ZQXAZUgFiqJ2i7Z2DPU2J6hW62i".toList).map List.length = some 24 := by decide +kernel

example : b58enc [0, 0, 1] = ['1', '1', '2'] := by decide +kernel

/-! ## Bech32 / Bech32m -/

/-- T4a: changing one value of the checksummed sequence (any position, any length) always
changes the polymod — so a string that differs from a valid one in exactly one data character
never satisfies the same checksum constant. -/
theorem polymod_single_substitution (pre post : List Nat) (a b : Nat)
    (hpre : ∀ v ∈ pre, v < 2^30) (hpost : ∀ v ∈ post, v < 2^30) (ha : a < 2^30) (hb : b < 2^30)
    (hab : a ≠ b) : polymod (pre ++ a :: post) ≠ polymod (pre ++ b :: post) := by
  unfold polymod
  simp only [List.foldl_append, List.foldl_cons]
  have hc := foldl_polyStep_lt pre hpre 1 (by decide)
  generalize List.foldl polyStep 1 pre = c at hc
  apply foldl_polyStep_ne post hpost _ _ (polyStep_lt _ _ hc ha) (polyStep_lt _ _ hc hb)
  intro heq
  unfold polyStep at heq
  -- cancel the common parts
  have := congrArg (fun x => x ^^^ bech32Gen (c / 2^25) ^^^ (c % 2^25 * 32)) heq
  have e : ∀ v : Nat, ((c % 2^25 * 32 ^^^ v) ^^^ bech32Gen (c / 2^25)) ^^^ bech32Gen (c / 2^25) ^^^ (c % 2^25 * 32) = v := by
    intro v
    have : ((c % 2^25 * 32 ^^^ v) ^^^ bech32Gen (c / 2^25)) ^^^ bech32Gen (c / 2^25) ^^^ (c % 2^25 * 32)
        = v ^^^ ((c % 2^25 * 32 ^^^ c % 2^25 * 32) ^^^ (bech32Gen (c / 2^25) ^^^ bech32Gen (c / 2^25))) := by ac_rfl
    rw [this, Nat.xor_self, Nat.xor_self]; simp
  rw [e a, e b] at this
  exact hab this

/-- corollary at the level of the address check: with the HRP and the rest fixed, at most one
value at a given position passes a given checksum constant -/
theorem checksum_single_substitution (hrp : List Char) (pre post : List Nat) (a b k : Nat)
    (hpre : ∀ v ∈ pre, v < 32) (hpost : ∀ v ∈ post, v < 32) (ha : a < 32) (hb : b < 32) (hab : a ≠ b)
    (hhrp : ∀ v ∈ hrpExpand hrp, v < 2^30)
    (hvalid : polymod (hrpExpand hrp ++ (pre ++ a :: post)) = k) :
    polymod (hrpExpand hrp ++ (pre ++ b :: post)) ≠ k := by
  rw [← hvalid, ← List.append_assoc, ← List.append_assoc]
  apply Ne.symm
  apply polymod_single_substitution
  · intro v hv
    simp only [List.mem_append] at hv
    cases hv with
    | inl h => exact hhrp v h
    | inr h => have := hpre v h; omega
  · intro v hv; have := hpost v hv; omega
  · omega
  · omega
  · exact hab

/-- HRP expansion of printable characters yields small values (hypothesis `hhrp` above is satisfiable) -/
theorem hrpExpand_lt (hrp : List Char) (h : ∀ c ∈ hrp, c.toNat < 128) : ∀ v ∈ hrpExpand hrp, v < 2^30 := by
  intro v hv
  unfold hrpExpand at hv
  simp only [List.mem_append, List.mem_map, List.mem_singleton] at hv
  rcases hv with (⟨c, hc, rfl⟩ | rfl) | ⟨c, hc, rfl⟩
  · have := h c hc; omega
  · decide
  · have := h c hc; omega

/-- T4c: the 8→5 bit regrouping with padding (address encoder) followed by the strict 5→8 regrouping
(address decoder) returns the program bytes — any length. -/
theorem convertBits_roundtrip (data : List Nat) (h : ∀ v ∈ data, v < 256) :
    convertBitsNoPad 5 8 (convertBitsPad 8 5 data) = some data := by
  unfold convertBitsPad convertBitsNoPad
  simp only
  have hb : (toBits 8 data).length = data.length * 8 := toBits_length 8 data
  generalize hp : (5 - (toBits 8 data).length % 5) % 5 = padn
  have hpad : padn < 5 := by omega
  obtain ⟨m, hm⟩ : ∃ m, (toBits 8 data ++ List.replicate padn false).length = m * 5 := by
    refine ⟨((toBits 8 data).length + padn) / 5, ?_⟩
    rw [List.length_append, List.length_replicate]; omega
  rw [toBits_fromBits 5 (by decide) m _ hm]
  have hlen : (toBits 8 data ++ List.replicate padn false).length = data.length * 8 + padn := by
    rw [List.length_append, List.length_replicate, hb]
  have hfull : (toBits 8 data ++ List.replicate padn false).length / 8 * 8 = (toBits 8 data).length := by
    rw [hlen, hb]; omega
  rw [hfull, List.drop_left', List.take_left']
  · have hrest : ¬ ((List.replicate padn false).length ≥ 5 ∨ (List.replicate padn false).any id = true) := by
      intro hc; rcases hc with hc | hc
      · simp at hc; omega
      · simp at hc
    rw [if_neg hrest]
    have h8 : ∀ v ∈ data, v < 2 ^ 8 := fun v hv => by have := h v hv; omega
    rw [fromBits_toBits 8 (by decide) data h8]
  · rfl
  · rfl

/-- the two checksum constants differ, so the Bech32 / Bech32m mix-up is a rejection -/
theorem consts_differ : bech32Const ≠ bech32mConst := by decide

/-- BIP173 / BIP350 test vectors evaluate in the kernel (tests, labelled as tests) -/
example : segwitDec "bc1qw508d6qejxtdg4y5r3zarvary0c5xw7kv8f3t4".toList =
    some ("bc".toList, 0, [0x75, 0x1e, 0x76, 0xe8, 0x19, 0x91, 0x96, 0xd4, 0x54, 0x94, 0x1c, 0x45, 0xd1, 0xb3, 0xa3, 0x23, 0xf1, 0x43, 0x3b, 0xd6]) := by
  decide +kernel
example : segwitDec "bc1qw508d6qejxtdg4y5r3zarvary0c5xw7kv8f3t5".toList = none := by decide +kernel
example : segwitDec "bc1qw508D6qejxtdg4y5r3zarvary0c5xw7kv8f3t4".toList = none := by decide +kernel

end Btc.C11
