import BtcModel.Redact
/-!
# C16 — Public views and default exports never contain private key material

> Whatever the library presents as public - the public version of a key, a public extended key, a
> watch-only wallet export, the default dictionary, JSON, repr or printed form of keys, addresses,
> transactions and wallets - contains no private key material in any encoding (raw bytes, hex,
> integer, WIF, extended private key), also when the object is pickled or copied. With database
> field encryption switched on, no private key or private WIF is readable in plaintext in the
> database file.

Slot/taint abstraction of `Key` / `HDKey`: which attributes can hold secret-derived data after
any call history, and what `public()` clears.  The harness measures the same per attribute on
the real objects (scanning every encoding of the secret) after random histories.
-/
namespace Btc.C16
open Btc

/-- invariant: only these slots can ever be tainted -/
def Inv (t : Tainted) : Prop := ∀ s ∈ t, s ∈ clearedByPublic

theorem inv_init : Inv initPrivate := by
  intro s hs; revert hs; revert s; decide

theorem taint_wif (t : Tainted) (h : Inv t) :
    Inv (if t.contains .secret then (if t.contains .wifCache then t else .wifCache :: t) else t) := by
  split
  · split
    · exact h
    · intro s hs
      simp only [List.mem_cons] at hs
      rcases hs with rfl | hs
      · decide
      · exact h s hs
  · exact h

theorem inv_step (hd : Bool) (t : Tainted) (op : KOp) (h : Inv t) : Inv (stepK hd t op) := by
  cases op <;> simp only [stepK] <;> first | exact h | exact taint_wif t h | skip
  split
  · exact h
  · exact taint_wif t h

/-- T1: after ANY history of method calls on a private key, only slots that `public()` clears can
hold secret-derived data … -/
theorem inv_run (hd : Bool) (h : List KOp) : Inv (runK hd initPrivate h) := by
  suffices ∀ t, Inv t → Inv (runK hd t h) from this _ inv_init
  induction h with
  | nil => intro t ht; exact ht
  | cons op rest ih => intro t ht; exact ih _ (inv_step hd t op ht)

/-- … hence the public view of the object is clean, whatever was called before. -/
theorem public_clean (hd : Bool) (h : List KOp) : publicView clearedByPublic (runK hd initPrivate h) = [] := by
  have hinv := inv_run hd h
  unfold publicView
  rw [List.filter_eq_nil_iff]
  intro s hs
  have := hinv s hs
  simp [this]

/-- F12 witness: with the clearing set of the pinned tree, exporting the WIF before taking the
public view leaves the private WIF in the "public" object. -/
theorem F12_witness : publicView clearedByPublicF12 (runK false initPrivate [.wif]) ≠ [] ∧
    publicView clearedByPublicF12 (runK true initPrivate [.info]) ≠ [] := by decide

/-- and without any prior call the old public view was clean — the defect needs the history -/
example : publicView clearedByPublicF12 (runK false initPrivate []) = [] := by decide

end Btc.C16
