import BtcModel.Redact
import BtcModel.DbCrypt
/-!
# C16 — Public views and default exports never contain private key material

> Whatever the library presents as public - the public version of a key, a public extended key, a
> watch-only wallet export, the default dictionary, JSON, repr or printed form of keys, addresses,
> transactions and wallets - contains no private key material in any encoding (raw bytes, hex,
> integer, WIF, extended private key), also when the object is pickled or copied. With database
> field encryption switched on, no private key or private WIF is readable in plaintext in the
> database file.

Slot/taint abstraction of `Key` / `HDKey`: which attributes can hold secret-derived data after
any call history, and what `public()` clears.  The harness measures the same per attribute on
the real objects (scanning every encoding of the secret) after random histories.
-/
namespace Btc.C16
open Btc

/-- invariant: only these slots can ever be tainted -/
def Inv (t : Tainted) : Prop := ∀ s ∈ t, s ∈ clearedByPublic

theorem inv_init : Inv initPrivate := by
  intro s hs; revert hs; revert s; decide

theorem taint_wif (t : Tainted) (h : Inv t) :
    Inv (if t.contains .secret then (if t.contains .wifCache then t else .wifCache :: t) else t) := by
  split
  · split
    · exact h
    · intro s hs
      simp only [List.mem_cons] at hs
      rcases hs with rfl | hs
      · decide
      · exact h s hs
  · exact h

theorem inv_step (hd : Bool) (t : Tainted) (op : KOp) (h : Inv t) : Inv (stepK hd t op) := by
  cases op <;> simp only [stepK] <;> first | exact h | exact taint_wif t h | skip
  split
  · exact h
  · exact taint_wif t h

/-- T1: after ANY history of method calls on a private key, only slots that `public()` clears can
hold secret-derived data … -/
theorem inv_run (hd : Bool) (h : List KOp) : Inv (runK hd initPrivate h) := by
  suffices ∀ t, Inv t → Inv (runK hd t h) from this _ inv_init
  induction h with
  | nil => intro t ht; exact ht
  | cons op rest ih => intro t ht; exact ih _ (inv_step hd t op ht)

/-- … hence the public view of the object is clean, whatever was called before. -/
theorem public_clean (hd : Bool) (h : List KOp) : publicView clearedByPublic (runK hd initPrivate h) = [] := by
  have hinv := inv_run hd h
  unfold publicView
  rw [List.filter_eq_nil_iff]
  intro s hs
  have := hinv s hs
  simp [this]

/-- F12 witness: with the clearing set of the pinned tree, exporting the WIF before taking the
public view leaves the private WIF in the "public" object. -/
theorem F12_witness : publicView clearedByPublicF12 (runK false initPrivate [.wif]) ≠ [] ∧
    publicView clearedByPublicF12 (runK true initPrivate [.info]) ≠ [] := by decide

/-- and without any prior call the old public view was clean — the defect needs the history -/
example : publicView clearedByPublicF12 (runK false initPrivate []) = [] := by decide

/-! ## Database field encryption (`db.py`: `_get_encryption_key`, `EncryptedBinary`, `EncryptedString`)

"Switched on" = a key or a password is supplied in the environment (`switchedOn`).  The cipher and
the password hash are parameters: the theorems hold for every `kdf`, `enc`, `dec`; the round trips
assume only `dec k (enc k p) = some p`. -/
section DbCrypt
variable (kdf : Bytes → Bytes) (enc : Bytes → Bytes → Bytes) (dec : Bytes → Bytes → Option Bytes)

/-- a key is selected exactly when field encryption is switched on -/
theorem selKey_isSome_iff (c : CryptCfg) : (selKey kdf c).isSome = switchedOn c := by
  unfold selKey switchedOn
  cases hk : envSet c.keyEnv <;> cases hp : envSet c.pwEnv <;> simp
  · cases h : c.pwEnv with
    | none => simp [h, envSet] at hp
    | some b => simp
  · cases h : c.keyEnv with
    | none => simp [h, envSet] at hk
    | some b => simp
  · cases h : c.keyEnv with
    | none => simp [h, envSet] at hk
    | some b => simp


private theorem passThrough_on (c : CryptCfg) (h : switchedOn c = true) (v : PyVal) (hv : v ≠ .none) :
    passThrough kdf c v = false := by
  have hs : (selKey kdf c).isSome = true := by rw [selKey_isSome_iff]; exact h
  have hn : (selKey kdf c).isNone = false := by
    cases hh : selKey kdf c <;> simp_all
  unfold passThrough
  unfold switchedOn at h
  rw [hn, h]
  cases v <;> simp_all

private theorem passThrough_off (c : CryptCfg) (h : switchedOn c = false) (v : PyVal) :
    passThrough kdf c v = true := by
  unfold passThrough
  unfold switchedOn at h
  rw [h]; simp

/-- `DB_FIELD_ENCRYPTION_KEY` wins over `DB_FIELD_ENCRYPTION_PASSWORD` -/
theorem selKey_key_wins (c : CryptCfg) (h : envSet c.keyEnv = true) : selKey kdf c = c.keyEnv := by
  simp [selKey, h]

/-- with a password only, the key is the hash of the password -/
theorem selKey_password (c : CryptCfg) (h : envSet c.keyEnv = false) (hp : envSet c.pwEnv = true) :
    selKey kdf c = c.pwEnv.map kdf := by
  simp [selKey, h, hp]

/-- **No plaintext in an encrypted column.**  With field encryption switched on, whatever is written
to a `private` (binary) or `wif` (text) column is the cipher's output under the selected key — for
every value, never the value itself.  (Text handed to the *binary* column is refused by the cipher,
`TypeError`: nothing is written.) -/
theorem bind_encrypts (c : CryptCfg) (h : switchedOn c = true) (v : PyVal) (hv : v ≠ .none) :
    ∃ k, selKey kdf c = some k ∧ strBind kdf enc c v = .val (.bytes (enc k v.payload)) ∧
      (∀ b, v = .bytes b → binBind kdf enc c v = .val (.bytes (enc k b))) ∧
      (∀ t, v = .str t → binBind kdf enc c v = .cipherErr) := by
  have hs : (selKey kdf c).isSome = true := by rw [selKey_isSome_iff]; exact h
  obtain ⟨k, hk⟩ := Option.isSome_iff_exists.mp hs
  refine ⟨k, hk, ?_, ?_, ?_⟩
  · simp [strBind, passThrough_on kdf c h v hv, hk]
  · intro b hb; subst hb; simp [binBind, passThrough_on kdf c h _ hv, hk, PyVal.payload]
  · intro t ht; subst ht; simp [binBind, passThrough_on kdf c h _ hv, hk]

/-- `None` stays `None` (a key row without private part) -/
theorem bind_none (c : CryptCfg) : binBind kdf enc c .none = .val .none ∧ strBind kdf enc c .none = .val .none := by
  simp [binBind, strBind, passThrough]

/-- what was written to a binary column is read back unchanged, with or without encryption -/
theorem bin_roundtrip (hdec : ∀ k p, dec k (enc k p) = some p) (c : CryptCfg) (b : Bytes) :
    binResult kdf dec c (binBind kdf enc c (.bytes b)).stored = .val (.bytes b) := by
  cases hon : switchedOn c
  · have hpt : ∀ v, passThrough kdf c v = true := passThrough_off kdf c hon
    simp [binBind, binResult, hpt, ColRes.stored]
  · obtain ⟨k, hk, _, hb, _⟩ := bind_encrypts kdf enc c hon (.bytes b) (by simp)
    have hpt : passThrough kdf c (.bytes (enc k b)) = false := passThrough_on kdf c hon _ (by simp)
    rw [hb b rfl]
    simp [binResult, PyVal.payload, hpt, hk, hdec, ColRes.stored]

/-- what was written to a text column is read back unchanged, with or without encryption -/
theorem str_roundtrip (hdec : ∀ k p, dec k (enc k p) = some p) (c : CryptCfg) (s : Bytes) :
    strResult kdf dec c (strBind kdf enc c (.str s)).stored = .val (.str s) := by
  cases hon : switchedOn c
  · have hpt : ∀ v, passThrough kdf c v = true := passThrough_off kdf c hon
    simp [strBind, strResult, hpt, ColRes.stored]
  · obtain ⟨k, hk, hb, _⟩ := bind_encrypts kdf enc c hon (.str s) (by simp)
    have hpt : passThrough kdf c (.bytes (enc k s)) = false := passThrough_on kdf c hon _ (by simp)
    rw [hb]
    simp [strResult, PyVal.payload, hpt, hk, hdec, ColRes.stored]

/-- a text column written while a key was configured is refused, not returned as if it were the
text, when the database is opened without key -/
theorem str_read_without_key (c c' : CryptCfg) (h : switchedOn c = true) (h' : switchedOn c' = false) (s : Bytes) :
    strResult kdf dec c' (strBind kdf enc c (.str s)).stored = .raises := by
  obtain ⟨k, _, hb, _⟩ := bind_encrypts kdf enc c h (.str s) (by simp)
  have hpt : ∀ v, passThrough kdf c' v = true := passThrough_off kdf c' h'
  rw [hb]; simp [strResult, hpt, ColRes.stored]

/-- reading with another key: whatever the cipher refuses is refused (no value is made up) -/
theorem wrong_key_refused (c c' : CryptCfg) (h : switchedOn c = true) (h' : switchedOn c' = true) (v : PyVal) (hv : v ≠ .none)
    (hauth : ∀ k k' p, selKey kdf c = some k → selKey kdf c' = some k' → k ≠ k' → dec k' (enc k p) = none)
    (hne : selKey kdf c ≠ selKey kdf c') :
    (∀ b, v = .bytes b → binResult kdf dec c' (binBind kdf enc c v).stored = .cipherErr) ∧
      strResult kdf dec c' (strBind kdf enc c v).stored = .cipherErr := by
  obtain ⟨k, hk, hs, hb, _⟩ := bind_encrypts kdf enc c h v hv
  have hs' : (selKey kdf c').isSome = true := by rw [selKey_isSome_iff]; exact h'
  obtain ⟨k', hk'⟩ := Option.isSome_iff_exists.mp hs'
  have hkk : k ≠ k' := by intro e; apply hne; rw [hk, hk', e]
  have hpt : ∀ p, passThrough kdf c' (.bytes (enc k p)) = false := fun p => passThrough_on kdf c' h' _ (by simp)
  have hp : ∀ p, (PyVal.bytes (enc k p)).payload = enc k p := fun _ => rfl
  constructor
  · intro b hvb
    rw [hb b hvb]
    simp only [ColRes.stored, binResult, hpt, hk', hp, hauth k k' b hk hk' hkk]
    simp
  · rw [hs]
    simp only [ColRes.stored, strResult, hpt, hk', hp, hauth k k' v.payload hk hk' hkk]
    simp

/-- the `database_encryption_enabled` switch of config.ini alone encrypts nothing: values are stored
as they are and the only effect is the warning (documented: the key has to be in the environment) -/
theorem enabled_without_key (c : CryptCfg) (h : switchedOn c = false) (v : PyVal) :
    binBind kdf enc c v = .val v ∧ strBind kdf enc c v = .val v ∧ warns c = c.enabled := by
  have hpt : passThrough kdf c v = true := passThrough_off kdf c h v
  refine ⟨by simp [binBind, hpt], by simp [strBind, hpt], ?_⟩
  unfold warns switchedOn at *; simp_all

/-- the hypotheses are satisfiable: a key, a password, both (the key wins), neither -/
example : switchedOn ⟨false, some [1, 2], none⟩ = true ∧ switchedOn ⟨false, none, some [3]⟩ = true ∧
    selKey (fun p => p ++ p) ⟨false, some [1, 2], some [3]⟩ = some [1, 2] ∧
    selKey (fun p => p ++ p) ⟨false, some [], some [3]⟩ = some [3, 3] ∧
    switchedOn ⟨true, some [], none⟩ = false := by decide

end DbCrypt

end Btc.C16
