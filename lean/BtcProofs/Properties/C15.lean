import BtcModel.Bip38
/-!
# C15 — BIP38 keys decrypt only with the right passphrase; new keys use fresh entropy

> Encrypting any private key with any passphrase and decrypting with the same passphrase returns
> the same key and compression flag, in both the plain and the EC-multiplied mode, with results
> that agree with the BIP38 specification; decrypting with a different passphrase fails instead
> of returning another key. Each newly generated encrypted key draws fresh randomness, so
> separate requests never yield the same key.

The model is the byte layout of the non-EC-multiplied mode over an abstract block cipher and an
abstract scrypt (`derive`), and the entropy discipline of the generator.  The theorems hold for
every cipher with `dec (enc b) = b` on 16-byte blocks; that the concrete AES-256 of
`BtcModel/Prim/Aes.lean` and `hashlib.scrypt` produce the strings the library produces (and the
BIP38 test vectors) is the correspondence run.  The EC-multiplied mode is covered by the
correspondence run only.
-/
namespace Btc.C15
open Btc

theorem xor_cancel_byte (a b : Byte) : (a ^^^ b) ^^^ b = a := by
  rw [UInt8.xor_assoc, UInt8.xor_self, UInt8.xor_zero]

theorem xorBytes_cancel : ∀ (a b : Bytes), a.length = b.length → xorBytes (xorBytes a b) b = a
  | [], [], _ => rfl
  | x :: a, y :: b, h => by
    have ih := xorBytes_cancel a b (by simpa using h)
    unfold xorBytes at *
    simp only [List.zip_cons_cons, List.map_cons, xor_cancel_byte]
    rw [ih]
  | [], _ :: _, h => by simp at h
  | _ :: _, [], h => by simp at h

theorem xorBytes_length (a b : Bytes) : (xorBytes a b).length = min a.length b.length := by
  simp [xorBytes]

/-- a cipher that decrypts what it encrypted, with 16-byte blocks -/
structure GoodCipher (P : Bip38Prims) : Prop where
  dec_enc : ∀ k b, b.length = 16 → P.aesDec k (P.aesEnc k b) = b
  enc_len : ∀ k b, b.length = 16 → (P.aesEnc k b).length = 16

theorem open_aux (P : Bip38Prims) (flag : Byte) (c : Bool) (ah A B derived : Bytes)
    (hf : flagComp flag = some c) (ha : ah.length = 4) (hA : A.length = 16) (hB : B.length = 16) :
    bip38Open P (0x01 :: 0x42 :: flag :: (ah ++ (A ++ B))) derived =
      some (xorBytes (P.aesDec (derived.drop 32) A) ((derived.take 32).take 16) ++
            xorBytes (P.aesDec (derived.drop 32) B) ((derived.take 32).drop 16), c, ah) := by
  unfold bip38Open
  have hlen : ¬ (ah ++ (A ++ B)).length ≠ 36 := by simp [ha, hA, hB]
  simp only [hlen, if_false, hf]
  have t4 : (ah ++ (A ++ B)).take 4 = ah := by rw [← ha]; simp
  have d4 : (ah ++ (A ++ B)).drop 4 = A ++ B := by rw [← ha]; simp
  have d20 : (ah ++ (A ++ B)).drop 20 = B := by
    have : (20 : Nat) = 4 + 16 := rfl
    rw [this, ← List.drop_drop, d4, ← hA]; simp
  have t16 : (A ++ B).take 16 = A := by rw [← hA]; simp
  rw [t4, d4, d20, t16]

/-- T1 (layout round trip): opening the payload built for (secret, flag, address hash) with the
same scrypt output returns exactly these — for every 32-byte secret, both flags, every 4-byte
address hash and every 64-byte derived key. -/
theorem open_payload (P : Bip38Prims) (hP : GoodCipher P) (secret ah derived : Bytes) (c : Bool)
    (hs : secret.length = 32) (ha : ah.length = 4) (hd : derived.length = 64) :
    bip38Open P (bip38Payload P secret c ah derived) derived = some (secret, c, ah) := by
  have l1 : (xorBytes (secret.take 16) ((derived.take 32).take 16)).length = 16 := by
    rw [xorBytes_length]; simp; omega
  have l2 : (xorBytes (secret.drop 16) ((derived.take 32).drop 16)).length = 16 := by
    rw [xorBytes_length]; simp; omega
  have e1 := hP.enc_len (derived.drop 32) _ l1
  have e2 := hP.enc_len (derived.drop 32) _ l2
  have hflag : flagComp (bip38Flag c) = some c := by cases c <;> simp [bip38Flag, flagComp]
  unfold bip38Payload
  simp only [List.cons_append, List.nil_append, List.append_assoc]
  rw [open_aux P _ c ah _ _ derived hflag ha e1 e2, hP.dec_enc _ _ l1, hP.dec_enc _ _ l2]
  rw [xorBytes_cancel _ _ (by simp; omega), xorBytes_cancel _ _ (by simp; omega)]
  simp

/-- shape of anything `bip38Open` accepts -/
theorem open_shape (P : Bip38Prims) (payload derived sec ah : Bytes) (c : Bool)
    (h : bip38Open P payload derived = some (sec, c, ah)) :
    ah = (payload.drop 3).take 4 ∧ ∃ flag rest, payload = 0x01 :: 0x42 :: flag :: rest ∧ rest.length = 36 ∧
      flagComp flag = some c := by
  unfold bip38Open at h
  split at h
  · rename_i flag rest
    by_cases hl : rest.length ≠ 36
    · simp [hl] at h
    · simp only [hl, if_false] at h
      cases hf : flagComp flag with
      | none => simp [hf] at h
      | some c' =>
        simp only [hf, Option.some.injEq, Prod.mk.injEq] at h
        obtain ⟨_, hc, hah⟩ := h
        subst hc
        refine ⟨by simp [← hah], flag, rest, rfl, by omega, hf⟩
  · cases h

/-- T2 (same passphrase): decrypting what was encrypted, with the same passphrase (`derive`),
returns the same secret and compression flag. -/
theorem decrypt_encrypt (E : Bip38Env) (hP : GoodCipher E.P) (derive : Bytes → Bytes)
    (hder : ∀ salt, (derive salt).length = 64)
    (secret ah payload : Bytes) (c : Bool) (hs : secret.length = 32)
    (hah : E.addrHashOf secret c = some ah) (hal : ah.length = 4)
    (henc : bip38Encrypt E derive secret c = some payload) :
    bip38Decrypt E derive payload = some (secret, c) := by
  unfold bip38Encrypt at henc
  rw [hah] at henc
  cases henc
  unfold bip38Decrypt
  have hsalt : ((bip38Payload E.P secret c ah (derive ah)).drop 3).take 4 = ah := by
    unfold bip38Payload
    simp only [List.cons_append, List.nil_append, List.drop_succ_cons, List.drop_zero, List.append_assoc]
    rw [← hal]; simp
  rw [hsalt, open_payload E.P hP secret ah (derive ah) c hs hal (hder ah)]
  simp [hah]

/-- T3 (any other passphrase, any string): whatever `bip38Decrypt` returns hashes to the address
hash committed in the payload.  A different passphrase therefore yields a key only if that key's
address has the same 4-byte hash as the original one — decryption fails rather than returning an
unrelated key (up to collisions of the 32-bit commitment that BIP38 itself specifies). -/
theorem decrypt_committed (E : Bip38Env) (derive : Bytes → Bytes) (payload sec : Bytes) (c : Bool)
    (h : bip38Decrypt E derive payload = some (sec, c)) :
    E.addrHashOf sec c = some ((payload.drop 3).take 4) ∧
    ∃ flag rest, payload = 0x01 :: 0x42 :: flag :: rest ∧ rest.length = 36 ∧ flagComp flag = some c := by
  unfold bip38Decrypt at h
  cases ho : bip38Open E.P payload (derive ((payload.drop 3).take 4)) with
  | none => simp [ho] at h
  | some r =>
    obtain ⟨s', c', ah'⟩ := r
    rw [ho] at h
    simp only at h
    split at h
    · rename_i heq
      cases h
      obtain ⟨hah, hshape⟩ := open_shape _ _ _ _ _ _ ho
      exact ⟨by rw [← hah]; exact eq_of_beq heq, hshape⟩
    · cases h

/-- T4 (freshness): `n` successive generator calls that each consume a draw use `n` different
draws — for every number of calls and every starting state. -/
theorem spec_calls_fresh (n : Nat) (w : World) :
    runCalls createNewSpec n w = List.range' w.next n ∧ (runCalls createNewSpec n w).Nodup := by
  have h : ∀ n w, runCalls createNewSpec n w = List.range' w.next n := by
    intro n
    induction n with
    | zero => intro w; rfl
    | succ n ih => intro w; simp [runCalls, createNewSpec, ih, List.range'_succ]
  exact ⟨h n w, by rw [h]; exact List.nodup_range'⟩

/-- T5 (F11, the defect repaired by the `fix:` commit): a generator whose seed is a default
argument evaluated once repeats its first draw on every call. -/
theorem default_arg_repeats (n : Nat) (w : World) :
    runCalls createNewDefaultArg n w = List.replicate n 0 := by
  induction n generalizing w with
  | zero => rfl
  | succ n ih => simp [runCalls, createNewDefaultArg, ih, List.replicate_succ]

theorem default_arg_not_fresh : ¬ (runCalls createNewDefaultArg 2 ⟨0⟩).Nodup := by decide

/-- premises are satisfiable: the identity cipher is a `GoodCipher` -/
example : GoodCipher { aesEnc := fun _ b => b, aesDec := fun _ b => b } :=
  ⟨fun _ _ _ => rfl, fun _ _ h => h⟩

end Btc.C15
