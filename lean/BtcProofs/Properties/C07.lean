import BtcProofs.Lemmas.TxCreate
/-!
# C07 — Wallet-created transactions conserve value and pay exactly what was requested

> Every transaction a wallet creates balances exactly: the input values sum to the output values
> plus the reported fee, the fee is non-negative and inside the network's fee-rate limits, and no
> output is negative. Each requested recipient appears once with exactly the requested amount
> and script, every other output pays a change address of the same wallet, every input is a
> distinct currently-unspent output of this wallet with the required confirmations, and when
> funds are insufficient the request fails instead of producing a transaction.

`Btc.TxCreate.create` transcribes `Wallet.transaction_create` (with `select_inputs` and
`estimate_size`); the outputs of a created transaction are the requested amounts followed by
`Created.change` (the shuffle is a permutation).  The theorems hold for every request: any
candidate rows, amounts, fee arguments, service fee estimates, sizes, random draws.
-/
namespace Btc.C07
open Btc Btc.TxCreate

/-- inversion of `create` -/
theorem create_ok {r : Req} {c : Created} (h : create r = .ok c) :
    ∃ ins s ch, stageInputs r = .ok ins ∧ stageFee r ins = .ok s ∧ stageChange r ins s = .ok ch ∧
      finalize r ins s ch = .ok c := by
  unfold create at h
  cases h1 : stageInputs r with
  | error e => simp [h1] at h
  | ok ins =>
    simp only [h1] at h
    cases h2 : stageFee r ins with
    | error e => simp [h2] at h
    | ok s =>
      simp only [h2] at h
      cases h3 : stageChange r ins s with
      | error e => simp [h3] at h
      | ok ch =>
        simp only [h3] at h
        exact ⟨ins, s, ch, rfl, h2, h3, h⟩

theorem finalize_ok {r : Req} {ins : List Utxo} {s : FeeState} {ch : ChangeState} {c : Created}
    (h : finalize r ins s ch = .ok c) :
    c.ins = ins ∧ c.fee = s.fee ∧ c.change = ch.outs ∧
    (sumU ins : Int) = s.fee + amountOut r + (ch.outs.sum : Nat) ∧
    (r.net.feeMin : Int) ≤ c.feePerKb ∧ c.feePerKb ≤ r.net.feeMax := by
  unfold finalize at h
  by_cases hb : ((sumU ins : Int) != s.fee + amountOut r + (ch.outs.sum : Nat)) = true
  · rw [if_pos hb] at h; cases h
  · rw [if_neg hb] at h
    by_cases hlo : fpkFinal s ch < r.net.feeMin
    · rw [if_pos hlo] at h; cases h
    · rw [if_neg hlo] at h
      by_cases hhi : fpkFinal s ch > r.net.feeMax
      · rw [if_pos hhi] at h; cases h
      · rw [if_neg hhi] at h
        cases h
        refine ⟨rfl, rfl, rfl, by simpa using hb, ?_, ?_⟩
        · show (r.net.feeMin : Int) ≤ fpkFinal s ch; omega
        · show fpkFinal s ch ≤ (r.net.feeMax : Int); omega

theorem stageFee_ok {r : Req} {ins : List Utxo} {s : FeeState} (h : stageFee r ins = .ok s) :
    0 ≤ s.fee ∧ 0 ≤ s.change ∧ feeShort r ins = false ∧ s.fee = feeAfter r ins ∧ s.change = changeAfter r ins := by
  unfold stageFee at h
  by_cases h1 : feeShort r ins = true
  · rw [if_pos h1] at h; cases h
  · rw [if_neg h1] at h
    by_cases h2 : (decide (changeAfter r ins < 0) || decide (feeAfter r ins < 0)) = true
    · rw [if_pos h2] at h; cases h
    · rw [if_neg h2] at h
      cases h
      simp only [Bool.or_eq_true, decide_eq_true_eq, not_or, Int.not_lt] at h2
      exact ⟨h2.2, h2.1, by simpa using h1, rfl, rfl⟩

/-- T1 (conservation): the inputs of a created transaction sum to the requested outputs plus
the change outputs plus the reported fee. -/
theorem create_balanced (r : Req) (c : Created) (h : create r = .ok c) :
    (sumU c.ins : Int) = (amountOut r : Int) + (c.change.sum : Nat) + c.fee := by
  obtain ⟨ins, s, ch, _, _, _, hf⟩ := create_ok h
  obtain ⟨h1, h2, h3, h4, _, _⟩ := finalize_ok hf
  rw [h1, h2, h3, h4]; omega

/-- T2: the reported fee is not negative. -/
theorem create_fee_nonneg (r : Req) (c : Created) (h : create r = .ok c) : 0 ≤ c.fee := by
  obtain ⟨ins, s, ch, _, hs, _, hf⟩ := create_ok h
  rw [(finalize_ok hf).2.1]
  exact (stageFee_ok hs).1

/-- T3: the reported fee rate is inside the network's limits. -/
theorem create_rate_limits (r : Req) (c : Created) (h : create r = .ok c) :
    (r.net.feeMin : Int) ≤ c.feePerKb ∧ c.feePerKb ≤ r.net.feeMax := by
  obtain ⟨ins, s, ch, _, _, _, hf⟩ := create_ok h
  exact (finalize_ok hf).2.2.2.2

/-- T4 (automatic inputs): every input is one of the candidate rows (unspent outputs of the wallet
with the required confirmations), no row is used twice, and the inputs cover the requested
amount plus the fee estimate. -/
theorem create_inputs_auto (r : Req) (c : Created) (cands : List Utxo) (maxU : Option Nat)
    (hi : r.inputs = .auto cands maxU) (hn : cands.Nodup) (h : create r = .ok c) :
    (∀ u ∈ c.ins, u ∈ cands) ∧ c.ins.Nodup ∧ amountOut r + (stageEstimate r).1 ≤ sumU c.ins := by
  obtain ⟨ins, s, ch, h1, _, _, hf⟩ := create_ok h
  rw [(finalize_ok hf).1]
  unfold stageInputs at h1
  rw [hi] at h1
  simp only at h1
  split at h1
  · cases h1
  · split at h1
    · cases h1
    · rename_i hne
      cases h1
      refine ⟨selectInputs_mem _ _ _ _, selectInputs_nodup _ _ _ _ hn, ?_⟩
      apply selectInputs_enough
      intro he
      apply hne
      rw [he]; rfl

/-- T5 (insufficient funds, automatic inputs): when the candidate rows cannot pay the requested
amount plus the fee estimate, no transaction is produced. -/
theorem insufficient_fails_auto (r : Req) (cands : List Utxo) (maxU : Option Nat)
    (hi : r.inputs = .auto cands maxU)
    (hlt : sumU cands < amountOut r + (stageEstimate r).1) : ∃ e, create r = .error e := by
  unfold create
  have : ∃ e, stageInputs r = .error e := by
    unfold stageInputs
    rw [hi]
    simp only
    split
    · exact ⟨_, rfl⟩
    · rw [selectInputs_insufficient _ _ _ _ hlt]
      exact ⟨_, rfl⟩
  obtain ⟨e, he⟩ := this
  exact ⟨e, by rw [he]⟩

/-- T6 (insufficient funds, explicit inputs): when the given inputs cannot pay the requested
outputs no transaction is produced, and with an explicit fee not even when they cannot pay
outputs plus that fee. -/
theorem insufficient_fails_given (r : Req) (l : List Utxo) (hi : r.inputs = .given l)
    (hlt : sumU l < amountOut r) : ∃ e, create r = .error e := by
  cases hc : create r with
  | error e => exact ⟨e, rfl⟩
  | ok c =>
    exfalso
    have hb := create_balanced r c hc
    have hf := create_fee_nonneg r c hc
    obtain ⟨ins, s, ch, h1, _, _, hfin⟩ := create_ok hc
    unfold stageInputs at h1
    rw [hi] at h1
    simp only at h1
    by_cases hn : decide (l.map (·.id)).Nodup = true
    · rw [if_pos hn] at h1
      cases h1
      rw [(finalize_ok hfin).1] at hb
      omega
    · rw [if_neg hn] at h1; cases h1

/-- T6b (explicit inputs): a created transaction never names the same outpoint twice. -/
theorem create_inputs_given_distinct (r : Req) (c : Created) (l : List Utxo) (hi : r.inputs = .given l)
    (h : create r = .ok c) : c.ins = l ∧ (l.map (·.id)).Nodup := by
  obtain ⟨ins, s, ch, h1, _, _, hf⟩ := create_ok h
  rw [(finalize_ok hf).1]
  unfold stageInputs at h1
  rw [hi] at h1
  simp only at h1
  by_cases hn : decide (l.map (·.id)).Nodup = true
  · rw [if_pos hn] at h1; cases h1; exact ⟨rfl, by simpa using hn⟩
  · rw [if_neg hn] at h1; cases h1

theorem explicit_fee_not_reduced (r : Req) (l : List Utxo) (f : Nat) (hi : r.inputs = .given l)
    (hf : r.feeArg = .explicit f) (hlt : sumU l < amountOut r + f) : ∃ e, create r = .error e := by
  unfold create
  by_cases hn : decide (l.map (·.id)).Nodup = true
  case neg =>
    have h1 : stageInputs r = .error Err.duplicateInput := by
      unfold stageInputs; rw [hi]; simp only; rw [if_neg hn]
    rw [h1]; exact ⟨_, rfl⟩
  have h1 : stageInputs r = .ok l := by unfold stageInputs; rw [hi]; simp only; rw [if_pos hn]
  rw [h1]
  simp only
  have he : stageEstimate r = (f, none, some (f : Int)) := by unfold stageEstimate; rw [hf]
  have h2 : stageFee r l = .error Err.outputsGreater := by
    unfold stageFee
    have : feeShort r l = true := by
      unfold feeShort feeTuple
      simp only [he, Option.isSome_some, Bool.true_and, decide_eq_true_eq]
      omega
    rw [if_pos this]
  rw [h2]
  exact ⟨_, rfl⟩

/-- a single change output is strictly positive -/
theorem single_change_positive (r : Req) (ins : List Utxo) (s : FeeState) (ch : ChangeState)
    (hs : stageFee r ins = .ok s) (hc : stageChange r ins s = .ok ch) (h1 : nChangeOf r ≤ 1) :
    ∀ v ∈ ch.outs, 0 < v := by
  have hpos := (stageFee_ok hs).2.1
  unfold stageChange at hc
  by_cases hz : (s.change == 0) = true
  · rw [if_pos hz] at hc; cases hc; simp
  · rw [if_neg hz] at hc
    split at hc
    · cases hc
    · split at hc
      · cases hc
      · split at hc
        · cases hc
        · cases hc
          simp only
          intro v hv
          have hz' : s.change ≠ 0 := by simpa using hz
          unfold changeAmounts at hv
          have hn : ¬ (nChangeOf r > 1) := by omega
          simp only [hn, if_false, List.mem_map] at hv
          obtain ⟨x, hx, rfl⟩ := hv
          have : x = s.change := by
            have := List.mem_of_mem_take hx
            simpa using this
          rw [this]; omega

/-- the hypotheses are satisfiable: a request that produces a transaction -/
def exampleReq : Req :=
  { net := { dust := 1000, feeMin := 1000, feeMax := 1000000 }, amounts := [20000], outLens := [22],
    feeArg := .explicit 1000, svcFee := 20000,
    inputs := .given [{ id := 1, value := 100000, conf := 3 }],
    kind := { wt := .segwit, multisig := none, compressed := true }, txwt0 := .segwit, txwt1 := .segwit,
    nChangeReq := 1, nChangeRand := 1, parts := [], single := false }

-- `create exampleReq` is evaluated by the driver (`txc_example`): the kernel cannot unfold the
-- well-founded `mergeSort` / binary64 rounding, so non-vacuity is shown by evaluation, and by the
-- created transactions of every correspondence run.

end Btc.C07

namespace Btc.C07
open Btc Btc.TxCreate

/-- a sweep with more than one "rest" target (amount 0) is refused: no requested recipient is silently left out (finding F89) -/
theorem sweep_one_rest (r : SweepReq) (l : List Nat) (hl : r.outs = some l) (p : Nat × List Nat) (h : sweepPlan r = some p) :
    (l.filter (· = 0)).length ≤ 1 := by
  unfold sweepPlan at h
  by_cases hm : multiRest r = true
  · rw [if_pos hm] at h; cases h
  · unfold multiRest at hm
    rw [hl] at hm
    simp only [decide_eq_true_eq] at hm
    omega

/-- T7 (sweep): a sweep that is not refused pays out every swept satoshi: the amounts plus the
fee equal the sum of the inputs it names (the unspent outputs above the dust limit), and
something above the dust limit is left after the fee. -/
theorem sweep_balanced (r : SweepReq) (fee : Nat) (amounts : List Nat) (h : sweepPlan r = some (fee, amounts)) :
    amounts.sum + fee = (r.values.filter (· > r.dust)).sum ∧
    (r.dust : Int) < ((r.values.filter (· > r.dust)).sum : Int) - fee := by
  unfold sweepPlan at h
  by_cases hm : multiRest r = true
  · rw [if_pos hm] at h; cases h
  rw [if_neg hm] at h
  by_cases h0 : r.values.isEmpty = true
  · rw [if_pos h0] at h; cases h
  · rw [if_neg h0] at h
    by_cases h1 : (sweepTotal r : Int) - (sweepFeeOf r : Int) ≤ (r.dust : Int)
    · rw [if_pos h1] at h; cases h
    · rw [if_neg h1] at h
      by_cases h2 : ((sweepAmounts r).sum + sweepFeeOf r != sweepTotal r) = true
      · rw [if_pos h2] at h; cases h
      · rw [if_neg h2] at h
        simp only [Option.some.injEq, Prod.mk.injEq] at h
        obtain ⟨e1, e2⟩ := h
        subst e1; subst e2
        have h2' : (sweepAmounts r).sum + sweepFeeOf r = sweepTotal r := by simpa using h2
        unfold sweepTotal at h2' h1
        exact ⟨h2', by omega⟩

theorem sumB_cons (o : BOut) (l : List BOut) : sumB (o :: l) = o.1 + sumB l := by simp [sumB]

/-- the fee-bump loop: recipients (non-change outputs) are kept as they are, in order, and when
it ends with nothing left to pay, the outputs have lost at least the part of the extra fee that
was still to be paid -/
theorem bumpLoop_spec (extra : Nat) : ∀ (outs : List BOut) (rem : Nat), rem ≤ extra →
    ((bumpLoop extra rem outs).2.filter (!·.2)) = outs.filter (!·.2) ∧
    ((bumpLoop extra rem outs).1 = 0 → sumB (bumpLoop extra rem outs).2 + rem ≤ sumB outs)
  | [], rem, _ => by
    simp only [bumpLoop, List.filter_nil, sumB, List.map_nil, List.sum_nil, true_and]
    intro h; omega
  | (v, false) :: rest, rem, hr => by
    have ih := bumpLoop_spec extra rest rem hr
    simp only [bumpLoop]
    refine ⟨by simp [List.filter_cons, ih.1], ?_⟩
    intro h0
    have := ih.2 h0
    rw [sumB_cons, sumB_cons]; simp only; omega
  | (v, true) :: rest, rem, hr => by
    simp only [bumpLoop]
    by_cases h0 : rem = 0
    · subst h0
      simp only [if_true]
      exact ⟨trivial, fun _ => by omega⟩
    · simp only [h0, if_false]
      by_cases h1 : v > rem * 2
      · have ih := bumpLoop_spec extra rest 0 (by omega)
        simp only [h1, if_true]
        refine ⟨by simp [List.filter_cons, ih.1], ?_⟩
        intro hz
        have := ih.2 hz
        rw [sumB_cons, sumB_cons]; simp only
        -- v - extra may truncate at 0; in both cases at least `rem` is lost
        omega
      · simp only [h1, if_false]
        by_cases h2 : v < rem
        · have ih := bumpLoop_spec extra rest (rem - v) (by omega)
          simp only [h2, if_true]
          refine ⟨by simp [List.filter_cons, ih.1], ?_⟩
          intro hz
          have := ih.2 hz
          rw [sumB_cons]; simp only; omega
        · have ih := bumpLoop_spec extra rest 0 (by omega)
          simp only [h2, if_false]
          refine ⟨by simp [List.filter_cons, ih.1], ?_⟩
          intro hz
          have := ih.2 hz
          rw [sumB_cons]; simp only; omega

theorem bumpExtra_ok {oldFee vsize fee extraFee extra : Nat} (h : bumpExtra oldFee vsize fee extraFee = .ok extra) :
    (fee ≠ 0 → extra = fee - oldFee ∧ oldFee + vsize ≤ fee) ∧ (fee = 0 → extra = extraFee ∧ vsize ≤ extraFee) := by
  unfold bumpExtra at h
  by_cases h0 : oldFee = 0
  · rw [if_pos h0] at h; cases h
  · rw [if_neg h0] at h
    by_cases hf : (fee != 0) = true
    · rw [if_pos hf] at h
      have hf' : fee ≠ 0 := by simpa using hf
      by_cases hs : fee < oldFee + vsize
      · rw [if_pos hs] at h; cases h
      · rw [if_neg hs] at h; cases h
        exact ⟨fun _ => ⟨rfl, by omega⟩, fun e => absurd e hf'⟩
    · rw [if_neg hf] at h
      have hf' : fee = 0 := by simpa using hf
      by_cases he : (extraFee != 0) = true
      · rw [if_pos he] at h
        by_cases hs : extraFee < vsize
        · rw [if_pos hs] at h; cases h
        · rw [if_neg hs] at h; cases h
          exact ⟨fun e => absurd hf' e, fun _ => ⟨rfl, by omega⟩⟩
      · rw [if_neg he] at h; cases h

theorem bumpE_ok {oldFee vsize fee extraFee : Nat} {outs outs' : List BOut}
    (h : bumpE oldFee vsize fee extraFee outs = .ok outs') :
    ∃ extra, bumpExtra oldFee vsize fee extraFee = .ok extra ∧
      outs'.filter (!·.2) = outs.filter (!·.2) ∧ sumB outs' + extra ≤ sumB outs := by
  unfold bumpE at h
  cases hx : bumpExtra oldFee vsize fee extraFee with
  | error e => rw [hx] at h; cases h
  | ok extra =>
    rw [hx] at h
    simp only at h
    by_cases hz : ((bumpLoop extra extra outs).1 != 0) = true
    · rw [if_pos hz] at h; cases h
    · rw [if_neg hz] at h
      cases h
      have sp := bumpLoop_spec extra outs extra (Nat.le_refl _)
      exact ⟨extra, rfl, sp.1, sp.2 (by simpa using hz)⟩

/-- T8 (replace-by-fee): a fee bump that is not refused leaves every recipient output untouched
and takes at least the requested extra fee out of the change outputs, so the transaction still
balances with a fee that is at least the old fee plus the extra fee. -/
theorem bump_spec (oldFee vsize fee extraFee : Nat) (outs outs' : List BOut)
    (h : bump oldFee vsize fee extraFee outs = some outs') :
    outs'.filter (!·.2) = outs.filter (!·.2) ∧
    ∃ extra, (fee ≠ 0 → extra = fee - oldFee ∧ oldFee + vsize ≤ fee) ∧
      (fee = 0 → extra = extraFee ∧ vsize ≤ extraFee) ∧ sumB outs' + extra ≤ sumB outs := by
  unfold bump at h
  cases hb : bumpE oldFee vsize fee extraFee outs with
  | error e => rw [hb] at h; cases h
  | ok l =>
    rw [hb] at h
    cases h
    obtain ⟨extra, hx, hf, hs⟩ := bumpE_ok hb
    exact ⟨hf, extra, (bumpExtra_ok hx).1, (bumpExtra_ok hx).2, hs⟩

/-- The change output that pays the rest loses exactly the rest (repair F115): with change outputs of
900 and 300 and an extra fee of 1000 the first is used up and the second keeps 200, so exactly 1000
are taken.  Before the repair the whole extra fee was subtracted from the second one:
300 - 1000 = -700, an output below zero. -/
theorem bump_second_change_pays_rest :
    bumpLoop 1000 1000 [(5000, false), (900, true), (300, true)] = (0, [(5000, false), (200, true)]) ∧
    ((300 : Int) - 1000 < 0) := by
  decide

theorem pickExtraInput_spec (utxos : List Utxo) (current : List Nat) (amountMin : Nat) (u : Utxo)
    (h : pickExtraInput utxos current amountMin = some u) :
    u ∈ utxos ∧ u.id ∉ current ∧ amountMin ≤ u.value := by
  unfold pickExtraInput at h
  have hm := List.mem_of_find?_eq_some h
  have hp := List.find?_some h
  simp only [Bool.and_eq_true, Bool.not_eq_true', decide_eq_true_eq] at hp
  refine ⟨hm, ?_, hp.2⟩
  intro hc
  have : current.contains u.id = true := by simpa using hc
  rw [this] at hp; cases hp.1

theorem creditChange_spec (v : Nat) : ∀ (outs : List BOut),
    (creditChange v outs).filter (!·.2) = outs.filter (!·.2) ∧ sumB (creditChange v outs) = sumB outs + v
  | [] => by simp [creditChange, sumB]
  | (x, true) :: rest => by
    simp only [creditChange, sumB, List.map_cons, List.sum_cons]
    refine ⟨by simp [List.filter_cons], by omega⟩
  | (x, false) :: rest => by
    have ih := creditChange_spec v rest
    simp only [creditChange]
    refine ⟨by simp [List.filter_cons, ih.1], ?_⟩
    rw [sumB_cons, sumB_cons, ih.2]; simp only; omega

/-- T9 (fee bump through the wallet): when the change cannot pay the extra fee one more input is
taken from the wallet — an unspent output the transaction does not spend yet, so the inputs stay
distinct —, the recipients are untouched, and the transaction balances with a fee of at least the
old fee plus the extra fee (inputs grow by the new input's value, outputs by at most that value
minus the extra fee). -/
theorem walletBump_spec (oldFee vsize extraFee : Nat) (ins : List Nat) (outs : List BOut) (utxos : List Utxo)
    (ins' : List Nat) (outs' : List BOut) (hnd : ins.Nodup)
    (h : walletBump oldFee vsize extraFee ins outs utxos = .ok (ins', outs')) :
    ins'.Nodup ∧ outs'.filter (!·.2) = outs.filter (!·.2) ∧
    ((ins' = ins ∧ sumB outs' + extraFee ≤ sumB outs) ∨
     (∃ u ∈ utxos, ins' = ins ++ [u.id] ∧ u.id ∉ ins ∧ sumB outs' + extraFee ≤ sumB outs + u.value)) := by
  unfold walletBump at h
  cases hb : bumpE oldFee vsize 0 extraFee outs with
  | ok l =>
    rw [hb] at h
    simp only [Except.ok.injEq, Prod.mk.injEq] at h
    obtain ⟨e1, e2⟩ := h
    subst e1; subst e2
    obtain ⟨extra, hx, hf, hs⟩ := bumpE_ok hb
    have := ((bumpExtra_ok hx).2 rfl).1
    subst this
    exact ⟨hnd, hf, Or.inl ⟨rfl, hs⟩⟩
  | error e =>
    rw [hb] at h
    cases e with
    | zeroFee => cases h
    | tooSmall => cases h
    | notEnough =>
      simp only at h
      cases hp : pickExtraInput utxos ins extraFee with
      | none => rw [hp] at h; cases h
      | some u =>
        rw [hp] at h
        simp only at h
        obtain ⟨hu, hnin, _⟩ := pickExtraInput_spec utxos ins extraFee u hp
        cases hb2 : bumpE oldFee vsize 0 extraFee (creditChange u.value outs) with
        | error e2 => rw [hb2] at h; cases h
        | ok l =>
          rw [hb2] at h
          simp only [Except.ok.injEq, Prod.mk.injEq] at h
          obtain ⟨e1, e2⟩ := h
          subst e1; subst e2
          obtain ⟨extra, hx, hf, hs⟩ := bumpE_ok hb2
          have := ((bumpExtra_ok hx).2 rfl).1
          subst this
          have cc := creditChange_spec u.value outs
          refine ⟨?_, by rw [hf, cc.1], Or.inr ⟨u, hu, rfl, hnin, by rw [cc.2] at hs; exact hs⟩⟩
          rw [List.nodup_append]
          exact ⟨hnd, by simp, fun a ha b hb' => by simp at hb'; subst hb'; exact fun e => hnin (e ▸ ha)⟩

end Btc.C07
