import BtcModel.Sighash
import BtcProofs.Lemmas.Tx
import BtcProofs.Properties.C06
/-!
# C01 — Signed digests equal the Bitcoin consensus sighash (legacy and BIP143)

> For every transaction the library can build or parse, the digest it signs and checks for
> input i is the digest Bitcoin consensus defines for that input: the legacy SIGHASH_ALL preimage
> for legacy inputs and the BIP143 preimage for native and P2SH-nested segwit inputs, with the
> right script code, amount, sequence, outpoints, outputs, version and locktime. Hence a
> signature produced by the library is valid for the output being spent on the real network,
> not merely consistent with the library's own verifier.

`legacyPreimage` / `bip143Preimage` are the consensus definitions; the differential run
compares `sha256d` of them with `Transaction.signature_hash` for every input of generated
transactions and verifies every library signature against them with an independent ECDSA.
The theorems below state what the preimages commit to.
-/
namespace Btc.C01
open Btc

/-- the transaction that the legacy SIGHASH_ALL preimage serialises: every scriptSig emptied,
the script code in place of input `i`'s -/
def txForSig (t : Tx) (i : Nat) (sc : Bytes) : Tx :=
  { t with
    ins := ((List.range t.ins.length).zip t.ins).map fun p =>
      { p.2 with scriptSig := if p.1 = i then sc else [] }
    witness := none }

/-- T1: the legacy SIGHASH_ALL preimage is the witness-stripped serialisation of `txForSig`
followed by the 4-byte hash type — for every number of inputs and outputs. -/
theorem legacyPreimage_all (t : Tx) (i : Nat) (sc : Bytes) (hi : i < t.ins.length) :
    legacyPreimage t i sc SIGHASH_ALL = some (serLegacy (txForSig t i sc) ++ leBytes SIGHASH_ALL 4) := by
  unfold legacyPreimage
  rw [if_neg (by omega)]
  have hb : SIGHASH_ALL % 32 = 1 := by decide
  have ha : ¬ (SIGHASH_ALL / 128 % 2 = 1) := by decide
  simp only [hb, ha, SIGHASH_SINGLE, SIGHASH_NONE, if_false]
  rw [if_neg (by omega)]
  simp only [show ¬ (1 = 2) by decide, show ¬ (1 = 3) by decide, if_false, false_or, and_false]
  unfold serLegacy txForSig serIns serOuts serIn
  simp only [List.length_map, List.length_zip, List.length_range, Nat.min_self, List.flatMap_def,
    List.map_map, Option.some.injEq]
  congr 4

/-- T2 (injectivity of what is committed, legacy): two well-formed signing contexts with the same
SIGHASH_ALL preimage have the same version, outpoints, sequences, script code, outputs and
locktime. -/
theorem legacy_commits (t t' : Tx) (i i' : Nat) (sc sc' : Bytes)
    (hi : i < t.ins.length) (hi' : i' < t'.ins.length)
    (hw : (txForSig t i sc).WF) (hw' : (txForSig t' i' sc').WF)
    (h : legacyPreimage t i sc SIGHASH_ALL = legacyPreimage t' i' sc' SIGHASH_ALL) :
    txForSig t i sc = txForSig t' i' sc' := by
  rw [legacyPreimage_all t i sc hi, legacyPreimage_all t' i' sc' hi'] at h
  have h := Option.some.inj h
  have e1 : serLegacy (txForSig t i sc) = serTx (txForSig t i sc) := by
    rw [C06.serTx_legacy]; rfl
  have e2 : serLegacy (txForSig t' i' sc') = serTx (txForSig t' i' sc') := by
    rw [C06.serTx_legacy]; rfl
  rw [e1, e2] at h
  have p1 := C06.parseTx_serTx _ hw (leBytes SIGHASH_ALL 4)
  have p2 := C06.parseTx_serTx _ hw' (leBytes SIGHASH_ALL 4)
  rw [h] at p1
  rw [p1] at p2
  exact (Prod.mk.inj (Option.some.inj p2)).1

/-- the fields of `txForSig` that belong to the original transaction -/
theorem txForSig_fields (t : Tx) (i : Nat) (sc : Bytes) :
    (txForSig t i sc).version = t.version ∧ (txForSig t i sc).outs = t.outs ∧
    (txForSig t i sc).locktime = t.locktime ∧
    (txForSig t i sc).ins.map (fun x => (x.prevTxid, x.vout, x.sequence)) =
      t.ins.map (fun x => (x.prevTxid, x.vout, x.sequence)) := by
  refine ⟨rfl, rfl, rfl, ?_⟩
  unfold txForSig
  simp only [List.map_map]
  have : ((fun x : TxIn => (x.prevTxid, x.vout, x.sequence)) ∘ fun p : Nat × TxIn =>
      { p.2 with scriptSig := if p.1 = i then sc else [] }) = (fun x : TxIn => (x.prevTxid, x.vout, x.sequence)) ∘ Prod.snd := by
    funext p; rfl
  rw [this, ← List.map_map]
  congr 1
  exact List.map_snd_zip (by simp)

/-- T3 (BIP143 layout): the preimage has the BIP143 field layout, with the amount and the
sequence of the signed input and the three inner hashes, for SIGHASH_ALL. -/
theorem bip143Preimage_all (H : Bytes → Bytes) (t : Tx) (i : Nat) (sc : Bytes) (amount : Nat) (inp : TxIn)
    (hi : t.ins[i]? = some inp) :
    bip143Preimage H t i sc amount SIGHASH_ALL = some (
      leBytes t.version 4 ++ H (t.ins.flatMap fun x => x.prevTxid ++ leBytes x.vout 4) ++
      H (t.ins.flatMap fun x => leBytes x.sequence 4) ++ inp.prevTxid ++ leBytes inp.vout 4 ++
      serVarBytes sc ++ leBytes amount 8 ++ leBytes inp.sequence 4 ++ H (t.outs.flatMap serOut) ++
      leBytes t.locktime 4 ++ leBytes SIGHASH_ALL 4) := by
  unfold bip143Preimage
  rw [hi]
  have hb : SIGHASH_ALL % 32 = 1 := by decide
  have ha : ¬ (SIGHASH_ALL / 128 % 2 = 1) := by decide
  simp [hb, ha, SIGHASH_SINGLE, SIGHASH_NONE]

/-- the BIP143 digest of the first official example (native P2WPKH, BIP143 "Native P2WPKH") is
checked at run time by the driver against the library; here: the amount is committed — changing
it changes the preimage (for any `H`). -/
theorem bip143_commits_amount (H : Bytes → Bytes) (t : Tx) (i : Nat) (sc : Bytes) (a a' : Nat) (inp : TxIn)
    (hi : t.ins[i]? = some inp) (ha : a < 2^64) (ha' : a' < 2^64)
    (h : bip143Preimage H t i sc a SIGHASH_ALL = bip143Preimage H t i sc a' SIGHASH_ALL) : a = a' := by
  rw [bip143Preimage_all H t i sc a inp hi, bip143Preimage_all H t i sc a' inp hi] at h
  have h := Option.some.inj h
  simp only [List.append_assoc, List.append_cancel_left_eq] at h
  have hl : (leBytes a 8).length = (leBytes a' 8).length := by simp
  have := (List.append_inj h hl).1
  have e := congrArg leVal this
  rw [leVal_leBytes, leVal_leBytes] at e
  have p : 256 ^ 8 = 2 ^ 64 := by decide
  omega

end Btc.C01

namespace Btc.C01
open Btc

/-- T4 (BIP143, SIGHASH_NONE): no output and no other input's sequence is committed — the
sequence hash and the output hash are 32 zero bytes. -/
theorem bip143Preimage_none (H : Bytes → Bytes) (t : Tx) (i : Nat) (sc : Bytes) (amount : Nat) (inp : TxIn)
    (hi : t.ins[i]? = some inp) :
    bip143Preimage H t i sc amount SIGHASH_NONE = some (
      leBytes t.version 4 ++ H (t.ins.flatMap fun x => x.prevTxid ++ leBytes x.vout 4) ++
      List.replicate 32 0 ++ inp.prevTxid ++ leBytes inp.vout 4 ++
      serVarBytes sc ++ leBytes amount 8 ++ leBytes inp.sequence 4 ++ List.replicate 32 0 ++
      leBytes t.locktime 4 ++ leBytes SIGHASH_NONE 4) := by
  unfold bip143Preimage
  rw [hi]
  have hb : SIGHASH_NONE % 32 = 2 := by decide
  have ha : ¬ (SIGHASH_NONE / 128 % 2 = 1) := by decide
  simp [hb, ha, SIGHASH_SINGLE, SIGHASH_NONE]

/-- T5 (BIP143, SIGHASH_SINGLE): exactly the output with the index of the input is committed
(32 zero bytes when there is none); the other inputs' sequences are not. -/
theorem bip143Preimage_single (H : Bytes → Bytes) (t : Tx) (i : Nat) (sc : Bytes) (amount : Nat) (inp : TxIn)
    (hi : t.ins[i]? = some inp) :
    bip143Preimage H t i sc amount SIGHASH_SINGLE = some (
      leBytes t.version 4 ++ H (t.ins.flatMap fun x => x.prevTxid ++ leBytes x.vout 4) ++
      List.replicate 32 0 ++ inp.prevTxid ++ leBytes inp.vout 4 ++
      serVarBytes sc ++ leBytes amount 8 ++ leBytes inp.sequence 4 ++
      (match t.outs[i]? with | some o => H (serOut o) | none => List.replicate 32 0) ++
      leBytes t.locktime 4 ++ leBytes SIGHASH_SINGLE 4) := by
  unfold bip143Preimage
  rw [hi]
  have hb : SIGHASH_SINGLE % 32 = 3 := by decide
  have ha : ¬ (SIGHASH_SINGLE / 128 % 2 = 1) := by decide
  cases ho : t.outs[i]? <;> simp [hb, ha, SIGHASH_SINGLE, SIGHASH_NONE, ho]

/-- T6 (BIP143, ANYONECANPAY | ALL): the other inputs are not committed at all (both input
hashes are zero), all outputs are. -/
theorem bip143Preimage_all_acp (H : Bytes → Bytes) (t : Tx) (i : Nat) (sc : Bytes) (amount : Nat) (inp : TxIn)
    (hi : t.ins[i]? = some inp) :
    bip143Preimage H t i sc amount 0x81 = some (
      leBytes t.version 4 ++ List.replicate 32 0 ++ List.replicate 32 0 ++ inp.prevTxid ++ leBytes inp.vout 4 ++
      serVarBytes sc ++ leBytes amount 8 ++ leBytes inp.sequence 4 ++ H (t.outs.flatMap serOut) ++
      leBytes t.locktime 4 ++ leBytes 0x81 4) := by
  unfold bip143Preimage
  rw [hi]
  have hb : 0x81 % 32 = 1 := by decide
  have ha : 0x81 / 128 % 2 = 1 := by decide
  simp [hb, ha, SIGHASH_SINGLE, SIGHASH_NONE]

end Btc.C01
