import BtcModel.Address
import BtcModel.Gen.Networks
import BtcProofs.Lemmas.Bytes
/-!
# C05 — Address <-> locking script mapping is standard and mutually inverse

> For every standard destination (P2PKH, P2SH, P2WPKH, P2WSH, P2TR; every supported network) an
> output built from an address carries exactly the standard locking script committing to that
> address's payload, and a standard locking script is reported with exactly the corresponding
> address and type; the two directions are inverse to each other. An address belonging to a
> different network than the transaction is refused rather than silently re-interpreted.

`lockScript` / `classifyScript` are the standard templates (consensus `IsPayToScriptHash`,
`IsWitnessProgram`, P2PKH); with the address codecs of C11 they give the two directions.
-/
namespace Btc.C05
open Btc

theorem witnessOp_toNat (v : Nat) (hv : v ≤ 16) :
    (witnessOp v).toNat = if v = 0 then 0 else 0x50 + v := by
  unfold witnessOp
  split
  · rfl
  · exact toNat_ofNat_lt (by omega)

theorem witnessVersion_witnessOp (v : Nat) (hv : v ≤ 16) : witnessVersion (witnessOp v) = some v := by
  unfold witnessVersion
  rw [witnessOp_toNat v hv]
  by_cases hz : v = 0
  · simp [hz]
  · simp only [hz, if_false]
    rw [if_neg (by omega), if_pos (by omega)]
    congr 1; omega

theorem witnessOp_witnessVersion (op : Byte) (v : Nat) (h : witnessVersion op = some v) : witnessOp v = op := by
  unfold witnessVersion at h
  split at h
  · rename_i h0
    cases h
    unfold witnessOp
    simp only [if_true]
    exact UInt8.toNat_inj.mp (by simpa using h0.symm)
  · split at h
    · rename_i hr
      cases h
      unfold witnessOp
      rw [if_neg (by omega)]
      have e : 0x50 + (op.toNat - 0x50) = op.toNat := by omega
      rw [e]; exact ofNat_toNat op
    · cases h

/-- T1: classify ∘ lockScript = id on every well-formed destination: all 20-byte hashes, all
witness versions 0..16 and program lengths 2..40. -/
theorem classify_lockScript (d : Dest) (h : d.WF) : classifyScript (lockScript d) = some d := by
  cases d with
  | p2pkh hh =>
    simp only [Dest.WF] at h
    unfold classifyScript lockScript
    rw [if_pos ⟨by simp [h], by simp, by simp [← h]⟩]
    simp [← h]
  | p2sh hh =>
    simp only [Dest.WF] at h
    unfold classifyScript lockScript
    rw [if_neg (by simp [h])]
    rw [if_pos ⟨by simp [h], by simp, by simp [← h]⟩]
    simp [← h]
  | witness v prog =>
    obtain ⟨hv, h2, h40, h0⟩ := h
    have hop := witnessOp_toNat v hv
    have hlen : (UInt8.ofNat prog.length).toNat = prog.length := toNat_ofNat_lt (by omega)
    have hne76 : witnessOp v ≠ 0x76 := by
      intro hc; have := congrArg UInt8.toNat hc; rw [hop] at this; split at this <;> simp at this <;> omega
    have hnea9 : witnessOp v ≠ 0xa9 := by
      intro hc; have := congrArg UInt8.toNat hc; rw [hop] at this; split at this <;> simp at this <;> omega
    unfold classifyScript lockScript
    simp only [List.cons_append, List.nil_append]
    rw [if_neg (by intro hc; have := hc.2.1; simp at this; exact hne76 this.1)]
    rw [if_neg (by intro hc; have := hc.2.1; simp at this; exact hnea9 this.1)]
    simp only [witnessVersion_witnessOp v hv, hlen]
    rw [if_pos ⟨trivial, h2, h40, h0⟩]

/-- T2: a script that classifies as a destination *is* that destination's standard script — no
second script is read as the same address. -/
theorem lockScript_of_classify (s : Bytes) (d : Dest) (h : classifyScript s = some d) : lockScript d = s := by
  unfold classifyScript at h
  split at h
  · rename_i hc
    cases h
    obtain ⟨hl, ht, hd⟩ := hc
    simp only [lockScript]
    have e1 : s = s.take 3 ++ s.drop 3 := (List.take_append_drop 3 s).symm
    have e2 : s.drop 3 = (s.drop 3).take 20 ++ (s.drop 3).drop 20 := (List.take_append_drop 20 _).symm
    rw [List.drop_drop] at e2
    rw [ht] at e1
    rw [show 3 + 20 = 23 by rfl, hd] at e2
    rw [e2] at e1
    simpa [List.append_assoc] using e1.symm
  · split at h
    · rename_i _ hc
      cases h
      obtain ⟨hl, ht, hd⟩ := hc
      simp only [lockScript]
      have e1 : s = s.take 2 ++ s.drop 2 := (List.take_append_drop 2 s).symm
      have e2 : s.drop 2 = (s.drop 2).take 20 ++ (s.drop 2).drop 20 := (List.take_append_drop 20 _).symm
      rw [List.drop_drop] at e2
      rw [ht] at e1
      rw [show 2 + 20 = 22 by rfl, hd] at e2
      rw [e2] at e1
      simpa [List.append_assoc] using e1.symm
    · split at h
      · rename_i op len prog _ _
        split at h
        · cases h
        · rename_i v hv
          split at h
          · rename_i hc
            cases h
            simp only [lockScript, List.cons_append, List.nil_append]
            have e2 : UInt8.ofNat prog.length = len := by rw [← hc.1]; exact ofNat_toNat len
            rw [e2, witnessOp_witnessVersion op v hv]
          · cases h
      · cases h

/-- the witness version is visible in the script: different versions give different scripts
(F15: the pre-fix library wrote v0 / v1 scripts for other versions) -/
theorem witness_version_committed (v v' : Nat) (prog : Bytes) (hv : v ≤ 16) (hv' : v' ≤ 16)
    (h : lockScript (.witness v prog) = lockScript (.witness v' prog)) : v = v' := by
  simp only [lockScript, List.cons_append, List.nil_append, List.cons.injEq] at h
  have := congrArg UInt8.toNat h.1
  rw [witnessOp_toNat v hv, witnessOp_toNat v' hv'] at this
  split at this <;> split at this <;> omega

/-- table theorem: two networks either share an HRP or have different ones — the pairs that the
generated table makes indistinguishable by Bech32 prefix are exactly the pinned ones -/
theorem bitcoin_hrp_unique :
    (Gen.networks.filter (fun n => n.bech32 == "bc")).map (·.name) = ["bitcoin"] := by decide

example : (Dest.witness 8 (List.replicate 20 7)).WF := by decide
example : lockScript (.witness 8 [1, 2]) = [0x58, 0x02, 1, 2] := by decide

end Btc.C05
