import BtcModel.Tx
import BtcModel.Block
import BtcProofs.Lemmas.Tx
import BtcProofs.Lemmas.TxStrict
/-!
# C06 — Transaction and block serialization round-trips byte-for-byte; ids are exact

> Parsing any well-formed serialized transaction, legacy or segwit, and serializing it again
> reproduces the same bytes, and its reported id is the double-SHA256 of the witness-stripped
> serialization; a transaction built through the API serializes to bytes an independent parser
> reads back to the same fields. Likewise a block's header fields, hash, target, transaction
> count and each contained transaction id are recovered exactly, by either of the library's
> block transaction readers, and re-serialization is byte-identical.

The theorems are about the consensus serialisation `serTx` / `serBlock` and the independent
parser `parseTx` / `parseBlock` of the model; the differential run ties the library's
`Transaction.parse`, `raw()`, `txid`, `Block.parse*`, `serialize()` to them.
-/
namespace Btc.C06
open Btc

/-- T1: the parser reads back every well-formed transaction — any number of inputs, outputs,
witness items, any script sizes below 2^64 — and leaves the rest of the stream untouched. -/
theorem parseTx_serTx (t : Tx) (h : t.WF) (r : Bytes) : parseTx (serTx t ++ r) = some (t, r) := by
  obtain ⟨hv, hl, hni, hno, hins, houts, hw⟩ := h
  have hI : ∀ r, readList readIn (serIns t.ins ++ r) = some (t.ins, r) := fun r =>
    readList_ser readIn serIn t.ins hni (fun a ha r => readIn_serIn a (hins a ha) r) r
  have hO : ∀ r, readList readOut (serOuts t.outs ++ r) = some (t.outs, r) := fun r =>
    readList_ser readOut serOut t.outs hno (fun a ha r => readOut_serOut a (houts a ha) r) r
  cases hwit : t.witness with
  | none =>
    rw [hwit] at hw
    simp only at hw
    unfold parseTx serTx serLegacy
    rw [hwit]
    simp only [List.append_assoc]
    rw [readFixed_le _ 4 _ (by omega : t.version < 256 ^ 4)]
    simp only
    -- the byte after the version is a non-zero input count, not the segwit marker
    have hlen : 1 ≤ t.ins.length := by
      cases hi : t.ins with
      | nil => exact absurd hi hw
      | cons a as => simp
    obtain ⟨b, rest, hb, hbne⟩ := csE_head_ne_zero t.ins.length hlen hni
      ((t.ins.map serIn).flatten ++ (serOuts t.outs ++ (leBytes t.locktime 4 ++ r)))
    have hsplit : serIns t.ins ++ (serOuts t.outs ++ (leBytes t.locktime 4 ++ r)) = b :: rest := by
      unfold serIns; rw [List.append_assoc]; exact hb
    have hseg : isSegwitMarker (serIns t.ins ++ (serOuts t.outs ++ (leBytes t.locktime 4 ++ r))) = false := by
      rw [hsplit]
      unfold isSegwitMarker
      split
      · rename_i heq; simp at heq; exact absurd heq.1 hbne
      · rfl
    rw [hseg]
    simp only [Bool.false_eq_true, if_false]
    rw [hI]
    simp only
    rw [hO]
    simp only
    rw [readFixed_le _ 4 _ (by omega : t.locktime < 256 ^ 4)]
    cases t; simp_all
  | some ws =>
    rw [hwit] at hw
    simp only at hw
    obtain ⟨hwl, hws⟩ := hw
    unfold parseTx serTx
    rw [hwit]
    simp only [List.append_assoc]
    rw [readFixed_le _ 4 _ (by omega : t.version < 256 ^ 4)]
    simp only [List.cons_append, List.nil_append, isSegwitMarker, if_true, List.drop_succ_cons, List.drop_zero]
    rw [hI]
    simp only
    rw [hO]
    simp only
    have hW : readN readStack t.ins.length ((ws.map serStack).flatten ++ (leBytes t.locktime 4 ++ r))
        = some (ws, leBytes t.locktime 4 ++ r) := by
      rw [← hwl]
      exact readN_ser readStack serStack ws (fun a ha r => readStack_serStack a (hws a ha) r) _
    rw [hW]
    simp only
    rw [readFixed_le _ 4 _ (by omega : t.locktime < 256 ^ 4)]
    cases t; simp_all

/-- T2: hence parse ∘ serialise ∘ parse is stable and re-serialisation of what was parsed from a
canonical serialisation is byte-identical. -/
theorem reserialize_identical (t : Tx) (h : t.WF) (r : Bytes) :
    ∃ t' r', parseTx (serTx t ++ r) = some (t', r') ∧ serTx t' ++ r' = serTx t ++ r :=
  ⟨t, r, parseTx_serTx t h r, rfl⟩

/-- T3: the id commits to the witness-stripped serialisation only: two transactions that differ
only in their witness data have the same `serLegacy` (hence the same txid for any hash). -/
theorem serLegacy_ignores_witness (t : Tx) (w : Option (List (List Bytes))) :
    serLegacy { t with witness := w } = serLegacy t := rfl

/-- a legacy transaction's full serialisation is its witness-stripped one -/
theorem serTx_legacy (t : Tx) (h : t.witness = none) : serTx t = serLegacy t := by
  unfold serTx; rw [h]

/-! ## The direction in which the property is worded: parse first, then serialise

"Well-formed serialized transaction" = a byte string the strict reader `parseTxS` accepts (`parseTx` with
CompactSize counts in shortest form only). -/

/-- T7: **for every byte string**, whatever the strict reader accepts re-serialises to exactly the
bytes that were read - legacy or segwit, any counts, any script and witness item sizes - and the rest of
the stream is what the reader says it left. -/
theorem serTx_parseTxS (bs : Bytes) (t : Tx) (r : Bytes) (h : parseTxS bs = some (t, r)) : serTx t ++ r = bs := by
  unfold parseTxS at h
  split at h
  · simp at h
  · rename_i ver r0 e0
    obtain ⟨a0, _⟩ := readFixed_some _ _ _ _ e0
    simp only at h
    split at h
    · simp at h
    · rename_i ins r2 eI
      have aI := readListS_some readInS serIn (fun bs a r h => (readInS_some bs a r h).1) _ _ _ eI
      split at h
      · simp at h
      · rename_i outs r3 eO
        have aO := readListS_some readOutS serOut (fun bs a r h => (readOutS_some bs a r h).1) _ _ _ eO
        cases hseg : isSegwitMarker r0 with
        | true =>
          simp only [hseg, if_true] at h aI
          split at h
          · simp at h
          · rename_i ws r4 eW
            obtain ⟨aW, _⟩ := readN_some readStackS serStack (fun bs a r h => (readStackS_some bs a r h).1) _ _ _ _ eW
            split at h
            · simp at h
            · rename_i lt r5 eL
              obtain ⟨aL, _⟩ := readFixed_some _ _ _ _ eL
              simp only [Option.some.injEq, Prod.mk.injEq] at h
              obtain ⟨h1, h2⟩ := h
              subst h1; subst h2
              -- the two marker bytes
              have hm : r0 = [0x00, 0x01] ++ r0.drop 2 := by
                unfold isSegwitMarker at hseg
                split at hseg
                · simp
                · simp at hseg
              simp only [serTx, serIns, serOuts, List.append_assoc]
              rw [aL, aW]
              have e2 : csE outs.length ++ ((outs.map serOut).flatten ++ r3) = r2 := by
                simpa [List.append_assoc] using aO
              rw [e2]
              have e1 : csE ins.length ++ ((ins.map serIn).flatten ++ r2) = r0.drop 2 := by
                simpa [List.append_assoc] using aI
              rw [e1]
              rw [← a0]
              congr 1
              exact hm.symm
        | false =>
          simp only [hseg, Bool.false_eq_true, if_false] at h aI
          split at h
          · simp at h
          · rename_i lt r5 eL
            obtain ⟨aL, _⟩ := readFixed_some _ _ _ _ eL
            simp only [Option.some.injEq, Prod.mk.injEq] at h
            obtain ⟨h1, h2⟩ := h
            subst h1; subst h2
            simp only [serTx, serLegacy, serIns, serOuts, List.append_assoc]
            rw [aL]
            have e2 : csE outs.length ++ ((outs.map serOut).flatten ++ r3) = r2 := by
              simpa [List.append_assoc] using aO
            rw [e2]
            have e1 : csE ins.length ++ ((ins.map serIn).flatten ++ r2) = r0 := by
              simpa [List.append_assoc] using aI
            rw [e1, a0]

/-- T8: the strict reader refines the reader that is run against the library: wherever it accepts, `parseTx`
returns the same transaction and the same rest. -/
theorem parseTxS_refines (bs : Bytes) (x : Tx × Bytes) (h : parseTxS bs = some x) : parseTx bs = some x := by
  unfold parseTxS at h
  unfold parseTx
  split at h
  · simp at h
  · rename_i ver r0 e0
    rw [e0]
    simp only at h ⊢
    split at h
    · simp at h
    · rename_i ins r2 eI
      rw [readListS_mono readInS readIn (fun bs x h => (readInS_some bs x.1 x.2 h).2) _ _ eI]
      simp only
      split at h
      · simp at h
      · rename_i outs r3 eO
        rw [readListS_mono readOutS readOut (fun bs x h => (readOutS_some bs x.1 x.2 h).2) _ _ eO]
        simp only
        split
        · rename_i hseg
          simp only [hseg, if_true] at h
          split at h
          · simp at h
          · rename_i ws r4 eW
            rw [readN_mono readStackS readStack (fun bs x h => (readStackS_some bs x.1 x.2 h).2) _ _ _ eW]
            exact h
        · rename_i hseg
          simp only [hseg, if_false] at h
          exact h

/-- T9: the strict reader accepts every serialisation of a well-formed transaction (so T7 is about all
of them, and only non-canonical counts are excluded) -/
theorem parseTxS_serTx (t : Tx) (h : t.WF) (r : Bytes) : parseTxS (serTx t ++ r) = some (t, r) := by
  obtain ⟨hv, hl, hni, hno, hins, houts, hw⟩ := h
  have hI : ∀ r, readListS readInS (serIns t.ins ++ r) = some (t.ins, r) := fun r =>
    readListS_ser readInS serIn t.ins hni (fun a ha r => readInS_serIn a (hins a ha) r) r
  have hO : ∀ r, readListS readOutS (serOuts t.outs ++ r) = some (t.outs, r) := fun r =>
    readListS_ser readOutS serOut t.outs hno (fun a ha r => readOutS_serOut a (houts a ha) r) r
  cases hwit : t.witness with
  | none =>
    rw [hwit] at hw
    simp only at hw
    unfold parseTxS serTx serLegacy
    rw [hwit]
    simp only [List.append_assoc]
    rw [readFixed_le _ 4 _ (by omega : t.version < 256 ^ 4)]
    simp only
    -- the byte after the version is a non-zero input count, not the segwit marker
    have hlen : 1 ≤ t.ins.length := by
      cases hi : t.ins with
      | nil => exact absurd hi hw
      | cons a as => simp
    obtain ⟨b, rest, hb, hbne⟩ := csE_head_ne_zero t.ins.length hlen hni
      ((t.ins.map serIn).flatten ++ (serOuts t.outs ++ (leBytes t.locktime 4 ++ r)))
    have hsplit : serIns t.ins ++ (serOuts t.outs ++ (leBytes t.locktime 4 ++ r)) = b :: rest := by
      unfold serIns; rw [List.append_assoc]; exact hb
    have hseg : isSegwitMarker (serIns t.ins ++ (serOuts t.outs ++ (leBytes t.locktime 4 ++ r))) = false := by
      rw [hsplit]
      unfold isSegwitMarker
      split
      · rename_i heq; simp at heq; exact absurd heq.1 hbne
      · rfl
    rw [hseg]
    simp only [Bool.false_eq_true, if_false]
    rw [hI]
    simp only
    rw [hO]
    simp only
    rw [readFixed_le _ 4 _ (by omega : t.locktime < 256 ^ 4)]
    cases t; simp_all
  | some ws =>
    rw [hwit] at hw
    simp only at hw
    obtain ⟨hwl, hws⟩ := hw
    unfold parseTxS serTx
    rw [hwit]
    simp only [List.append_assoc]
    rw [readFixed_le _ 4 _ (by omega : t.version < 256 ^ 4)]
    simp only [List.cons_append, List.nil_append, isSegwitMarker, if_true, List.drop_succ_cons, List.drop_zero]
    rw [hI]
    simp only
    rw [hO]
    simp only
    have hW : readN readStackS t.ins.length ((ws.map serStack).flatten ++ (leBytes t.locktime 4 ++ r))
        = some (ws, leBytes t.locktime 4 ++ r) := by
      rw [← hwl]
      exact readN_ser readStackS serStack ws (fun a ha r => readStackS_serStack a (hws a ha) r) _
    rw [hW]
    simp only
    rw [readFixed_le _ 4 _ (by omega : t.locktime < 256 ^ 4)]
    cases t; simp_all


/-- T7 and T9 together: on well-formed transactions parse-then-serialise is the identity on bytes and
serialise-then-parse the identity on transactions. -/
theorem strict_roundtrip (t : Tx) (h : t.WF) (r : Bytes) :
    parseTxS (serTx t ++ r) = some (t, r) ∧ ∀ t' r', parseTxS (serTx t ++ r) = some (t', r') → serTx t' ++ r' = serTx t ++ r :=
  ⟨parseTxS_serTx t h r, fun t' r' h' => serTx_parseTxS _ t' r' h'⟩

/-- T4: block header round trip (the 80 bytes that are hashed) -/
theorem readHeader_serHeader (h : BlockHeader) (hw : h.WF) (r : Bytes) :
    readHeader (serHeader h ++ r) = some (h, r) := Btc.readHeader_serHeader h hw r

/-- T4b: the header reader in the other direction, for EVERY byte string: what it accepts is exactly
the serialisation of the header it returns (a well-formed one) followed by the rest it returns -
the 80 bytes that are hashed are recovered field by field and re-serialised byte-identically. -/
theorem serHeader_readHeader (bs : Bytes) (h : BlockHeader) (r : Bytes) (hr : readHeader bs = some (h, r)) :
    serHeader h ++ r = bs ∧ h.WF := Btc.serHeader_readHeader bs h r hr

/-- the reader accepts exactly the streams of at least 80 bytes -/
theorem readHeader_isSome_iff (bs : Bytes) : (readHeader bs).isSome ↔ 80 ≤ bs.length := by
  constructor
  · intro h
    obtain ⟨⟨hd, r⟩, e⟩ := Option.isSome_iff_exists.mp h
    obtain ⟨e1, e2⟩ := Btc.serHeader_readHeader bs hd r e
    have hl : (serHeader hd).length = 80 := by
      obtain ⟨_, h2, h3, _, _, _⟩ := e2
      simp [serHeader, h2, h3]
    rw [← e1]; simp [hl]
  · intro h
    have e : bs = bs.take 80 ++ bs.drop 80 := (List.take_append_drop 80 bs).symm
    let t := bs.take 80
    have ht : t.length = 80 := by simp [t]; omega
    -- the first 80 bytes are the serialisation of the header made of their slices
    let hd : BlockHeader := ⟨leVal (t.take 4), (t.drop 4).take 32, (t.drop 36).take 32, leVal ((t.drop 68).take 4),
      leVal ((t.drop 72).take 4), leVal ((t.drop 76).take 4)⟩
    have l1 : (t.take 4).length = 4 := by simp; omega
    have l2 : ((t.drop 68).take 4).length = 4 := by simp; omega
    have l3 : ((t.drop 72).take 4).length = 4 := by simp; omega
    have l4 : ((t.drop 76).take 4).length = 4 := by simp; omega
    have hwf : hd.WF := by
      refine ⟨?_, ?_, ?_, ?_, ?_, ?_⟩
      · have := leVal_lt (t.take 4); rw [l1] at this; simpa [hd] using this
      · simp [hd]; omega
      · simp [hd]; omega
      · have := leVal_lt ((t.drop 68).take 4); rw [l2] at this; simpa [hd] using this
      · have := leVal_lt ((t.drop 72).take 4); rw [l3] at this; simpa [hd] using this
      · have := leVal_lt ((t.drop 76).take 4); rw [l4] at this; simpa [hd] using this
    have hser : serHeader hd = t := by
      have a1 := leBytes_leVal (t.take 4); rw [l1] at a1
      have a2 := leBytes_leVal ((t.drop 68).take 4); rw [l2] at a2
      have a3 := leBytes_leVal ((t.drop 72).take 4); rw [l3] at a3
      have a4 := leBytes_leVal ((t.drop 76).take 4); rw [l4] at a4
      simp only [serHeader, hd, a1, a2, a3, a4]
      have s1 : t = t.take 4 ++ t.drop 4 := (List.take_append_drop 4 t).symm
      have s2 : t.drop 4 = (t.drop 4).take 32 ++ t.drop 36 := by
        rw [show t.drop 36 = (t.drop 4).drop 32 by simp]; exact (List.take_append_drop 32 _).symm
      have s3 : t.drop 36 = (t.drop 36).take 32 ++ t.drop 68 := by
        rw [show t.drop 68 = (t.drop 36).drop 32 by simp]; exact (List.take_append_drop 32 _).symm
      have s4 : t.drop 68 = (t.drop 68).take 4 ++ t.drop 72 := by
        rw [show t.drop 72 = (t.drop 68).drop 4 by simp]; exact (List.take_append_drop 4 _).symm
      have s5 : t.drop 72 = (t.drop 72).take 4 ++ t.drop 76 := by
        rw [show t.drop 76 = (t.drop 72).drop 4 by simp]; exact (List.take_append_drop 4 _).symm
      have s6 : t.drop 76 = (t.drop 76).take 4 := by
        rw [List.take_of_length_le]; simp; omega
      conv => rhs; rw [s1, s2, s3, s4, s5, s6]
      simp [List.append_assoc]
    rw [e, show bs.take 80 = t from rfl, ← hser, Btc.readHeader_serHeader hd hwf]
    rfl

theorem serHeader_length (h : BlockHeader) (hw : h.WF) : (serHeader h).length = 80 := by
  obtain ⟨_, h2, h3, _, _, _⟩ := hw
  simp [serHeader, h2, h3]

/-- T5: a block of well-formed transactions parses back to the same header and transactions. -/
theorem parseBlock_serBlock (b : Block) (hh : b.header.WF) (hn : b.txs.length < 2^64)
    (ht : ∀ t ∈ b.txs, t.WF) (r : Bytes) : parseBlock (serBlock b ++ r) = some (b, r) := by
  unfold parseBlock serBlock
  simp only [List.append_assoc]
  rw [Btc.readHeader_serHeader _ hh]
  simp only
  have := readList_ser parseTx serTx b.txs hn (fun t h r => parseTx_serTx t (ht t h) r) r
  rw [List.append_assoc] at this
  rw [this]

/-- T5b: blocks in the direction the property is worded - for every byte string, what the strict block
reader accepts re-serialises to exactly the bytes read (header, count and every transaction). -/
theorem serBlock_parseBlockS (bs : Bytes) (b : Block) (r : Bytes) (h : parseBlockS bs = some (b, r)) :
    serBlock b ++ r = bs := by
  unfold parseBlockS at h
  split at h
  · simp at h
  · rename_i hd r1 e1
    split at h
    · simp at h
    · rename_i txs r2 e2
      simp only [Option.some.injEq, Prod.mk.injEq] at h
      obtain ⟨h1, h2⟩ := h
      subst h1; subst h2
      obtain ⟨a1, _⟩ := Btc.serHeader_readHeader _ _ _ e1
      have a2 := readListS_some parseTxS serTx (fun bs t r h => serTx_parseTxS bs t r h) _ _ _ e2
      simp only [serBlock, List.append_assoc]
      have : csE txs.length ++ ((txs.map serTx).flatten ++ r2) = r1 := by simpa [List.append_assoc] using a2
      rw [this, a1]

/-- ... and it accepts every serialisation of a block of well-formed transactions -/
theorem parseBlockS_serBlock (b : Block) (hh : b.header.WF) (hn : b.txs.length < 2^64)
    (ht : ∀ t ∈ b.txs, t.WF) (r : Bytes) : parseBlockS (serBlock b ++ r) = some (b, r) := by
  unfold parseBlockS serBlock
  simp only [List.append_assoc]
  rw [Btc.readHeader_serHeader _ hh]
  simp only
  have := readListS_ser parseTxS serTx b.txs hn (fun t h r => parseTxS_serTx t (ht t h) r) r
  rw [List.append_assoc] at this
  rw [this]

/-- T6: the library's `Block.target` formula agrees with consensus `SetCompact` whenever the
exponent is at least 3 and the sign bit is clear (every block of a valid chain). -/
theorem targetImpl_eq_compactTarget (bits : Nat) (h3 : 3 ≤ bits / 2^24) (hs : bits % 2^24 < 2^23) :
    targetImpl bits = compactTarget bits := by
  unfold targetImpl compactTarget
  have e : bits % 2^24 = bits % 2^23 := by omega
  simp only
  rw [if_neg (by omega), if_neg (by omega)]
  by_cases h : bits / 2^24 ≤ 3
  · have : bits / 2^24 = 3 := by omega
    rw [if_pos h, this, e]; simp
  · rw [if_neg h, e]

/-- non-vacuity: a concrete segwit transaction satisfies `WF` -/
example : (⟨2, [⟨List.replicate 32 1, 0, [], 0xffffffff⟩], [⟨1000, [0x51]⟩], some [[[1, 2], []]], 0⟩ : Tx).WF := by
  refine ⟨by decide, by decide, by decide, by decide, ?_, ?_, ?_⟩
  · intro i hi; simp at hi; subst hi; exact ⟨by decide, by decide, by decide, by decide⟩
  · intro o ho; simp at ho; subst ho; exact ⟨by decide, by decide⟩
  · refine ⟨rfl, ?_⟩
    intro st hst; simp at hst; subst hst
    refine ⟨by decide, ?_⟩
    intro it hit; simp at hit; rcases hit with rfl | rfl <;> decide

end Btc.C06
