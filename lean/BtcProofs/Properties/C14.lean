import BtcModel.Bip39
import BtcProofs.Lemmas.Bits
import BtcProofs.Lemmas.Bytes
/-!
# C14 — Mnemonic sentences follow BIP39 in every language and round-trip

> For every entropy of 128 to 256 bits and every bundled word list, the generated sentence is the
> BIP39 sentence for that entropy, converts back to the same entropy, and yields the BIP39 seed
> (PBKDF2-HMAC-SHA512 over the NFKD-normalised sentence and optional passphrase, both normalised
> as the standard prescribes). A sentence whose checksum does not match or that contains a word
> outside the list is rejected.

The theorems are about word *indices*; a word list is any list of 2048 distinct words (the
bundled lists are compared entry by entry with a frozen reference copy on every run), so index
↔ word is a bijection and the statements transfer to sentences in every language.
-/
namespace Btc.C14
open Btc

theorem checksum_length (H : Bytes → Bytes) (e : Bytes) (j : Nat) (he : e.length = 4 * j) (hj : j ≤ 8) :
    (bip39Checksum H e).length = j := by
  unfold bip39Checksum
  simp [he]; omega

theorem map_ofNat_toNat (e : Bytes) : (e.map (·.toNat)).map UInt8.ofNat = e := by
  induction e with
  | nil => rfl
  | cons b bs ih => simp only [List.map_cons, ih, ofNat_toNat]

/-- T1: the sentence (as word indices) converts back to the entropy it was made from — for every
entropy of 16, 20, 24, 28 or 32 bytes, leading zero bytes and all-ones included, any hash. -/
theorem entropy_of_indices (H : Bytes → Bytes) (e : Bytes) (j : Nat) (he : e.length = 4 * j) (h4 : 4 ≤ j) (h8 : j ≤ 8)
    (idx : List Nat) (h : bip39Indices H e = some idx) : bip39Entropy H idx = some e := by
  unfold bip39Indices at h
  split at h
  · cases h
  · cases h
    have hcs := checksum_length H e j he h8
    have hbl : (toBits 8 (e.map (·.toNat)) ++ bip39Checksum H e).length = (3 * j) * 11 := by
      rw [List.length_append, toBits_length, hcs]; simp [he]; omega
    have hlen := fromBits_length 11 (by decide) (3 * j) _ hbl
    have hlt := fromBits_lt 11 (by decide) (3 * j) _ hbl
    have hback := toBits_fromBits 11 (by decide) (3 * j) _ hbl
    unfold bip39Entropy
    rw [hlen]
    have hk : (3 * j == 12 || 3 * j == 15 || 3 * j == 18 || 3 * j == 21 || 3 * j == 24) = true := by
      have : j = 4 ∨ j = 5 ∨ j = 6 ∨ j = 7 ∨ j = 8 := by omega
      rcases this with rfl | rfl | rfl | rfl | rfl <;> decide
    rw [hk]
    simp only [Bool.not_true, Bool.false_eq_true, if_false]
    have hany : (fromBits 11 (toBits 8 (e.map (·.toNat)) ++ bip39Checksum H e)).any (· ≥ 2048) = false := by
      rw [List.any_eq_false]
      intro v hv
      have := hlt v hv
      simp; omega
    rw [hany]
    simp only [Bool.false_eq_true, if_false, hback]
    have hent : 3 * j * 11 * 32 / 33 = (toBits 8 (e.map (·.toNat))).length := by
      rw [toBits_length]; simp [he]; omega
    rw [hent, List.take_left', List.drop_left']
    · have h8' : ∀ v ∈ e.map (·.toNat), v < 2 ^ 8 := by
        intro v hv; simp at hv; obtain ⟨b, _, rfl⟩ := hv; exact b.toNat_lt
      rw [fromBits_toBits 8 (by decide) _ h8', map_ofNat_toNat]
      simp
    · rfl
    · rfl

/-- non-vacuity: the all-zero 16-byte entropy with a hash whose first byte is 0x30 gives 12 indices
("abandon ×11 about" when the hash is SHA-256) -/
example : bip39Indices (fun _ => [0x37]) (List.replicate 16 0) = some [0, 0, 0, 0, 0, 0, 0, 0, 0, 0, 0, 3] := by decide +kernel

/-- T2: a sentence with an index outside the list (≥ 2048, i.e. an unknown word) is rejected -/
theorem unknown_word_rejected (H : Bytes → Bytes) (idx : List Nat) (h : ∃ i ∈ idx, i ≥ 2048) : bip39Entropy H idx = none := by
  unfold bip39Entropy
  split
  · rfl
  · have : idx.any (· ≥ 2048) = true := by
      rw [List.any_eq_true]; obtain ⟨i, hi, hge⟩ := h; exact ⟨i, hi, by simpa using hge⟩
    rw [this]; simp

/-- T3: whatever is accepted carries the checksum of the entropy it yields -/
theorem accepted_has_checksum (H : Bytes → Bytes) (idx : List Nat) (e : Bytes) (h : bip39Entropy H idx = some e) :
    (toBits 11 idx).drop (idx.length * 11 * 32 / 33) = bip39Checksum H e := by
  unfold bip39Entropy at h
  split at h
  · cases h
  · split at h
    · cases h
    · simp only at h
      split at h
      · rename_i hc
        cases h
        simpa using hc
      · cases h

/-- a wrong number of words is rejected -/
example (H : Bytes → Bytes) : bip39Entropy H [1, 2, 3] = none := by simp [bip39Entropy]

end Btc.C14
