import BtcModel.Bip39
import BtcProofs.Lemmas.Bits
import BtcProofs.Lemmas.Bytes
/-!
# C14 — Mnemonic sentences follow BIP39 in every language and round-trip

> For every entropy of 128 to 256 bits and every bundled word list, the generated sentence is the
> BIP39 sentence for that entropy, converts back to the same entropy, and yields the BIP39 seed
> (PBKDF2-HMAC-SHA512 over the NFKD-normalised sentence and optional passphrase, both normalised
> as the standard prescribes). A sentence whose checksum does not match or that contains a word
> outside the list is rejected.

The theorems are about word *indices*; a word list is any list of 2048 distinct words (the
bundled lists are compared entry by entry with a frozen reference copy on every run), so index
↔ word is a bijection and the statements transfer to sentences in every language.
-/
namespace Btc.C14
open Btc

theorem checksum_length (H : Bytes → Bytes) (e : Bytes) (j : Nat) (he : e.length = 4 * j) (hj : j ≤ 8) :
    (bip39Checksum H e).length = j := by
  unfold bip39Checksum
  simp [he]; omega

theorem map_ofNat_toNat (e : Bytes) : (e.map (·.toNat)).map UInt8.ofNat = e := by
  induction e with
  | nil => rfl
  | cons b bs ih => simp only [List.map_cons, ih, ofNat_toNat]

/-- T1: the sentence (as word indices) converts back to the entropy it was made from — for every
entropy of 16, 20, 24, 28 or 32 bytes, leading zero bytes and all-ones included, any hash. -/
theorem entropy_of_indices (H : Bytes → Bytes) (e : Bytes) (j : Nat) (he : e.length = 4 * j) (h4 : 4 ≤ j) (h8 : j ≤ 8)
    (idx : List Nat) (h : bip39Indices H e = some idx) : bip39Entropy H idx = some e := by
  unfold bip39Indices at h
  split at h
  · cases h
  · cases h
    have hcs := checksum_length H e j he h8
    have hbl : (toBits 8 (e.map (·.toNat)) ++ bip39Checksum H e).length = (3 * j) * 11 := by
      rw [List.length_append, toBits_length, hcs]; simp [he]; omega
    have hlen := fromBits_length 11 (by decide) (3 * j) _ hbl
    have hlt := fromBits_lt 11 (by decide) (3 * j) _ hbl
    have hback := toBits_fromBits 11 (by decide) (3 * j) _ hbl
    unfold bip39Entropy
    rw [hlen]
    have hk : (3 * j == 12 || 3 * j == 15 || 3 * j == 18 || 3 * j == 21 || 3 * j == 24) = true := by
      have : j = 4 ∨ j = 5 ∨ j = 6 ∨ j = 7 ∨ j = 8 := by omega
      rcases this with rfl | rfl | rfl | rfl | rfl <;> decide
    rw [hk]
    simp only [Bool.not_true, Bool.false_eq_true, if_false]
    have hany : (fromBits 11 (toBits 8 (e.map (·.toNat)) ++ bip39Checksum H e)).any (· ≥ 2048) = false := by
      rw [List.any_eq_false]
      intro v hv
      have := hlt v hv
      simp; omega
    rw [hany]
    simp only [Bool.false_eq_true, if_false, hback]
    have hent : 3 * j * 11 * 32 / 33 = (toBits 8 (e.map (·.toNat))).length := by
      rw [toBits_length]; simp [he]; omega
    rw [hent, List.take_left', List.drop_left']
    · have h8' : ∀ v ∈ e.map (·.toNat), v < 2 ^ 8 := by
        intro v hv; simp at hv; obtain ⟨b, _, rfl⟩ := hv; exact b.toNat_lt
      rw [fromBits_toBits 8 (by decide) _ h8', map_ofNat_toNat]
      simp
    · rfl
    · rfl

/-- non-vacuity: the all-zero 16-byte entropy with a hash whose first byte is 0x30 gives 12 indices
("abandon ×11 about" when the hash is SHA-256) -/
example : bip39Indices (fun _ => [0x37]) (List.replicate 16 0) = some [0, 0, 0, 0, 0, 0, 0, 0, 0, 0, 0, 3] := by decide +kernel

/-- T2: a sentence with an index outside the list (≥ 2048, i.e. an unknown word) is rejected -/
theorem unknown_word_rejected (H : Bytes → Bytes) (idx : List Nat) (h : ∃ i ∈ idx, i ≥ 2048) : bip39Entropy H idx = none := by
  unfold bip39Entropy
  split
  · rfl
  · have : idx.any (· ≥ 2048) = true := by
      rw [List.any_eq_true]; obtain ⟨i, hi, hge⟩ := h; exact ⟨i, hi, by simpa using hge⟩
    rw [this]; simp

/-- T3: whatever is accepted carries the checksum of the entropy it yields -/
theorem accepted_has_checksum (H : Bytes → Bytes) (idx : List Nat) (e : Bytes) (h : bip39Entropy H idx = some e) :
    (toBits 11 idx).drop (idx.length * 11 * 32 / 33) = bip39Checksum H e := by
  unfold bip39Entropy at h
  split at h
  · cases h
  · split at h
    · cases h
    · simp only at h
      split at h
      · rename_i hc
        cases h
        simpa using hc
      · cases h

/-- a wrong number of words is rejected -/
example (H : Bytes → Bytes) : bip39Entropy H [1, 2, 3] = none := by simp [bip39Entropy]

theorem map_toNat_ofNat (l : List Nat) (h : ∀ v ∈ l, v < 2 ^ 8) : (l.map UInt8.ofNat).map (·.toNat) = l := by
  induction l with
  | nil => rfl
  | cons a l ih =>
    simp only [List.map_cons]
    rw [ih (fun v hv => h v (List.mem_cons_of_mem _ hv))]
    have : a < 2 ^ 8 := h a (List.mem_cons_self ..)
    congr 1
    simp [UInt8.toNat_ofNat']; omega

/-- T4: an accepted sentence is THE BIP39 sentence of the entropy it yields (with T1: entropies of the five lengths and
accepted sentences correspond one to one; nothing else is accepted) -/
theorem accepted_is_canonical (H : Bytes → Bytes) (idx : List Nat) (e : Bytes) (h : bip39Entropy H idx = some e) :
    bip39Indices H e = some idx := by
  unfold bip39Entropy at h
  by_cases hl : (idx.length == 12 || idx.length == 15 || idx.length == 18 || idx.length == 21 || idx.length == 24) = true
  · rw [hl] at h
    simp only [Bool.not_true, Bool.false_eq_true, if_false] at h
    by_cases ha : idx.any (· ≥ 2048) = true
    · rw [ha] at h; simp at h
    · have ha' : idx.any (· ≥ 2048) = false := by simpa using ha
      rw [ha'] at h
      simp only [Bool.false_eq_true, if_false] at h
      split at h
      · rename_i hc
        cases h
        have hlt : ∀ v ∈ idx, v < 2 ^ 11 := by
          intro v hv
          have := (List.any_eq_false.mp ha') v hv
          simp at this; omega
        -- j = number of 4-byte groups
        obtain ⟨j, hj, h4, h8⟩ : ∃ j, idx.length = 3 * j ∧ 4 ≤ j ∧ j ≤ 8 := by
          simp only [Bool.or_eq_true, beq_iff_eq] at hl
          rcases hl with (((h | h) | h) | h) | h
          · exact ⟨4, h, by omega, by omega⟩
          · exact ⟨5, h, by omega, by omega⟩
          · exact ⟨6, h, by omega, by omega⟩
          · exact ⟨7, h, by omega, by omega⟩
          · exact ⟨8, h, by omega, by omega⟩
        have hbits : (toBits 11 idx).length = 33 * j := by rw [toBits_length, hj]; omega
        have hent : idx.length * 11 * 32 / 33 = 32 * j := by rw [hj]; omega
        rw [hent] at hc ⊢
        have htake : ((toBits 11 idx).take (32 * j)).length = (4 * j) * 8 := by
          rw [List.length_take, hbits]; omega
        have hel : ((fromBits 8 ((toBits 11 idx).take (32 * j))).map UInt8.ofNat).length = 4 * j := by
          rw [List.length_map, fromBits_length 8 (by decide) (4 * j) _ htake]
        unfold bip39Indices
        rw [hel]
        have hok : entropyLenOk (4 * j) = true := by
          have : j = 4 ∨ j = 5 ∨ j = 6 ∨ j = 7 ∨ j = 8 := by omega
          rcases this with rfl | rfl | rfl | rfl | rfl <;> decide
        rw [hok]
        simp only [Bool.not_true, Bool.false_eq_true, if_false]
        rw [map_toNat_ofNat _ (fromBits_lt 8 (by decide) (4 * j) _ htake), toBits_fromBits 8 (by decide) (4 * j) _ htake]
        have hc' : (toBits 11 idx).drop (32 * j) = bip39Checksum H ((fromBits 8 ((toBits 11 idx).take (32 * j))).map UInt8.ofNat) := by
          simpa using hc
        rw [← hc', List.take_append_drop, fromBits_toBits 11 (by decide) idx hlt]
      · cases h
  · have : (idx.length == 12 || idx.length == 15 || idx.length == 18 || idx.length == 21 || idx.length == 24) = false := by simpa using hl
    rw [this] at h; simp at h

/-- the entropy an accepted sentence yields is read off its first 32/33 bits -/
theorem accepted_entropy_eq (H : Bytes → Bytes) (idx : List Nat) (e : Bytes) (h : bip39Entropy H idx = some e) :
    e = (fromBits 8 ((toBits 11 idx).take (idx.length * 11 * 32 / 33))).map UInt8.ofNat := by
  unfold bip39Entropy at h
  split at h
  · cases h
  · split at h
    · cases h
    · simp only at h
      split at h
      · cases h; rfl
      · cases h

/-- T5: two accepted sentences with the same entropy are the same sentence -/
theorem accepted_injective (H : Bytes → Bytes) (idx idx' : List Nat) (e : Bytes)
    (h : bip39Entropy H idx = some e) (h' : bip39Entropy H idx' = some e) : idx = idx' := by
  have a := accepted_is_canonical H idx e h
  have b := accepted_is_canonical H idx' e h'
  rw [a] at b
  exact Option.some.inj b

/-- T6: substituting words of an accepted sentence without touching its entropy bits (a change confined to the
checksum bits of the last word) is always rejected -/
theorem checksum_substitution_rejected (H : Bytes → Bytes) (idx idx' : List Nat) (e : Bytes)
    (h : bip39Entropy H idx = some e) (hlen : idx'.length = idx.length) (hne : idx' ≠ idx)
    (hsame : (toBits 11 idx').take (idx.length * 11 * 32 / 33) = (toBits 11 idx).take (idx.length * 11 * 32 / 33)) :
    bip39Entropy H idx' = none := by
  cases h' : bip39Entropy H idx' with
  | none => rfl
  | some e' =>
    have e1 := accepted_entropy_eq H idx e h
    have e2 := accepted_entropy_eq H idx' e' h'
    rw [hlen, hsame, ← e1] at e2
    subst e2
    exact absurd (accepted_injective H idx' idx e' h' h) hne

/-- non-vacuity of T6: with a hash whose first byte is 0x37 the sentence 0 ×11, 3 is accepted and 0 ×11, 4 differs from
it in checksum bits only -/
example : bip39Entropy (fun _ => [0x37]) [0, 0, 0, 0, 0, 0, 0, 0, 0, 0, 0, 3] = some (List.replicate 16 0) := by decide +kernel
example : bip39Entropy (fun _ => [0x37]) [0, 0, 0, 0, 0, 0, 0, 0, 0, 0, 0, 4] = none := by decide +kernel

end Btc.C14
