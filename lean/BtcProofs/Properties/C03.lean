import BtcModel.Bytes
import BtcModel.Bip32
import Mathlib.Algebra.Module.Basic
import Mathlib.Data.ZMod.Basic
/-!
# C03 — HD key derivation conforms to BIP32; public and private derivation agree

> Child keys derived from any extended key along any path are the keys BIP32 defines: private
> and public derivation commute (the public part of a privately derived non-hardened child equals
> the child derived from the parent's public key), and depth, parent fingerprint, child number and
> chain code are those of the specification. A hardened child can never be obtained from a
> public-only parent: such a request fails instead of returning some other key.

Algebraic core over an abstract group: scalars `ZMod n`, points `P` (a `ZMod n`-module with
generator `G`), an arbitrary keyed function `hm` standing for HMAC-SHA512 split into (I_L, I_R),
an arbitrary point serialisation `ser` and fingerprint `fp`.  The executable BIP32 of
`BtcModel/Bip32.lean` instantiates this with the reference primitives and is compared with the
library on generated seeds and paths (bookkeeping fields included).
-/
namespace Btc.C03

variable {n : ℕ} {P C S F : Type} [AddCommGroup P] [Module (ZMod n) P]

/-- extended private key: scalar, chain code, depth, parent fingerprint, child number -/
structure XPrv (n : ℕ) (C F : Type) where
  k : ZMod n
  c : C
  depth : Nat
  parentFp : F
  child : Nat

/-- extended public key -/
structure XPub (P C F : Type) where
  K : P
  c : C
  depth : Nat
  parentFp : F
  child : Nat

/-- the parameters of BIP32 that are external primitives -/
structure Prims (n : ℕ) (P C S F : Type) where
  G : P
  ser : P → S                           -- ser_P
  fp : P → F                            -- first 4 bytes of HASH160(ser_P)
  hmPub : C → S → Nat → ZMod n × C      -- HMAC-SHA512(c, ser_P(K) || ser32(i)) as (I_L, I_R)
  hmPrv : C → ZMod n → Nat → ZMod n × C -- HMAC-SHA512(c, 0x00 || ser256(k) || ser32(i))

def neuter (pr : Prims n P C S F) (x : XPrv n C F) : XPub P C F :=
  ⟨x.k • pr.G, x.c, x.depth, x.parentFp, x.child⟩

/-- CKDpriv (hardened iff i ≥ 2^31) -/
def ckdPriv (pr : Prims n P C S F) (x : XPrv n C F) (i : Nat) : XPrv n C F :=
  let I := if i ≥ 2^31 then pr.hmPrv x.c x.k i else pr.hmPub x.c (pr.ser (x.k • pr.G)) i
  ⟨I.1 + x.k, I.2, x.depth + 1, pr.fp (x.k • pr.G), i⟩

/-- CKDpub; `none` for hardened child numbers -/
def ckdPub (pr : Prims n P C S F) (x : XPub P C F) (i : Nat) : Option (XPub P C F) :=
  if i ≥ 2^31 then none else
    let I := pr.hmPub x.c (pr.ser x.K) i
    some ⟨I.1 • pr.G + x.K, I.2, x.depth + 1, pr.fp x.K, i⟩

def derivePriv (pr : Prims n P C S F) (x : XPrv n C F) (path : List Nat) : XPrv n C F :=
  path.foldl (ckdPriv pr) x

def derivePub (pr : Prims n P C S F) (x : XPub P C F) : List Nat → Option (XPub P C F)
  | [] => some x
  | i :: rest => (ckdPub pr x i).bind fun y => derivePub pr y rest

/-- T1: N(CKDpriv(x, i)) = CKDpub(N(x), i) for every non-hardened i — key, chain code, depth,
parent fingerprint and child number all agree. -/
theorem ckd_commute (pr : Prims n P C S F) (x : XPrv n C F) (i : Nat) (hi : i < 2^31) :
    ckdPub pr (neuter pr x) i = some (neuter pr (ckdPriv pr x i)) := by
  unfold ckdPub ckdPriv neuter
  simp only [show ¬ (i ≥ 2^31) by omega, if_false, add_smul]

/-- T2: a hardened child is never obtained from a public key -/
theorem ckdPub_hardened (pr : Prims n P C S F) (x : XPub P C F) (i : Nat) (hi : 2^31 ≤ i) :
    ckdPub pr x i = none := by
  unfold ckdPub; rw [if_pos hi]

/-- … and a public derivation along a path containing a hardened element fails as a whole -/
theorem derivePub_hardened (pr : Prims n P C S F) (x : XPub P C F) (path : List Nat)
    (h : ∃ i ∈ path, 2^31 ≤ i) : derivePub pr x path = none := by
  induction path generalizing x with
  | nil => obtain ⟨i, hi, _⟩ := h; simp at hi
  | cons j rest ih =>
    unfold derivePub
    by_cases hj : 2^31 ≤ j
    · rw [ckdPub_hardened pr x j hj]; rfl
    · obtain ⟨i, hi, hge⟩ := h
      have hir : ∃ i ∈ rest, 2^31 ≤ i := by
        simp at hi
        rcases hi with rfl | hi
        · exact absurd hge hj
        · exact ⟨i, hi, hge⟩
      cases hc : ckdPub pr x j with
      | none => rfl
      | some y => simp [Option.bind, ih y hir]

/-- T3 (any split point, unbounded depth): deriving privately along p₁ ++ p₂ and neutering equals
deriving privately along p₁, neutering, and deriving publicly along p₂ — for every non-hardened p₂. -/
theorem derive_split (pr : Prims n P C S F) (x : XPrv n C F) (p1 p2 : List Nat) (h2 : ∀ i ∈ p2, i < 2^31) :
    derivePub pr (neuter pr (derivePriv pr x p1)) p2 = some (neuter pr (derivePriv pr x (p1 ++ p2))) := by
  induction p2 generalizing p1 with
  | nil => simp [derivePub]
  | cons i rest ih =>
    unfold derivePub
    rw [ckd_commute pr _ i (h2 i (by simp))]
    simp only [Option.bind]
    have := ih (p1 ++ [i]) (fun j hj => h2 j (by simp [hj]))
    have e : derivePriv pr x (p1 ++ [i]) = ckdPriv pr (derivePriv pr x p1) i := by
      unfold derivePriv; simp [List.foldl_append]
    rw [e] at this
    rw [this]
    simp [List.append_assoc]

/-- bookkeeping: depth grows by one per step; the child number is the requested one -/
theorem ckdPriv_fields (pr : Prims n P C S F) (x : XPrv n C F) (i : Nat) :
    (ckdPriv pr x i).depth = x.depth + 1 ∧ (ckdPriv pr x i).child = i ∧
    (ckdPriv pr x i).parentFp = pr.fp (x.k • pr.G) := ⟨rfl, rfl, rfl⟩

theorem derivePriv_depth (pr : Prims n P C S F) (x : XPrv n C F) (path : List Nat) :
    (derivePriv pr x path).depth = x.depth + path.length := by
  induction path generalizing x with
  | nil => rfl
  | cons i rest ih =>
    unfold derivePriv at *
    simp only [List.foldl_cons, List.length_cons]
    rw [ih]; simp [ckdPriv]; omega

/-! ## Path spellings (`BtcModel/Bip32.lean` `parsePathItem`, compared with `HDKey.subkey_for_path` on every run)

"every spelling of hardened markers (' h H p P)": the five markers denote the same child number, which is the number
before the marker plus 2^31. -/

def markers : List Char := ['\'', 'h', 'H', 'p', 'P']

theorem digit_not_marker (c : Char) (h : c.isDigit = true) : c ∉ markers := by
  intro hm
  simp [markers] at hm
  rcases hm with rfl | rfl | rfl | rfl | rfl <;> simp [Char.isDigit] at h

/-- the value of an unmarked item -/
def plainValue (ds : List Char) : Option Nat :=
  let n := ds.foldl (fun a d => a * 10 + (d.toNat - 48)) 0
  if n < 2^32 then some n else none

theorem parse_plain (ds : List Char) (hne : ds ≠ []) (hd : ds.all Char.isDigit = true) :
    parsePathItem (String.ofList ds) = plainValue ds := by
  unfold parsePathItem plainValue
  simp only [String.toList_ofList]
  obtain ⟨c, hc⟩ : ∃ c, ds.getLast? = some c := by
    cases h : ds.getLast? with
    | none => exact absurd (List.getLast?_eq_none_iff.mp h) hne
    | some c => exact ⟨c, rfl⟩
  rw [hc]
  have hcm : c ∈ ds := List.mem_of_getLast? hc
  have hcd : c.isDigit = true := (List.all_eq_true.mp hd) c hcm
  have hnm := digit_not_marker c hcd
  simp only [markers] at hnm
  simp [hnm, hne, hd]

/-- T: a hardened marker — in any of its five spellings — adds exactly 2^31 to the number before it, and numbers
from 2^31 on cannot be hardened -/
theorem parse_hardened (ds : List Char) (hne : ds ≠ []) (hd : ds.all Char.isDigit = true) (c : Char) (hc : c ∈ markers) :
    parsePathItem (String.ofList (ds ++ [c])) =
      (let n := ds.foldl (fun a d => a * 10 + (d.toNat - 48)) 0
       if n < 2^31 then some (n + 2^31) else none) := by
  unfold parsePathItem
  simp only [String.toList_ofList, List.getLast?_append, List.getLast?_singleton, Option.some_or, List.dropLast_concat]
  simp only [markers] at hc
  simp [hc, hne, hd]

/-- … hence every spelling of the marker denotes the same child number -/
theorem spelling_independent (ds : List Char) (hne : ds ≠ []) (hd : ds.all Char.isDigit = true) (c c' : Char)
    (hc : c ∈ markers) (hc' : c' ∈ markers) :
    parsePathItem (String.ofList (ds ++ [c])) = parsePathItem (String.ofList (ds ++ [c'])) := by
  rw [parse_hardened ds hne hd c hc, parse_hardened ds hne hd c' hc']

example : parsePathItem "44'" = some (44 + 2^31) ∧ parsePathItem "44h" = some (44 + 2^31) ∧ parsePathItem "2147483648" = some (2^31)
    ∧ parsePathItem "2147483648'" = none ∧ parsePathItem "'" = none ∧ parsePathItem "4x" = none := by decide +kernel

end Btc.C03
