import BtcModel.Wallet.KeyPaths
import BtcProofs.Lemmas.KeyPaths
/-!
# C09 — Wallet keys follow BIP44/49/84/48 paths and restore deterministically

> Every key a wallet hands out lies at the documented path for its witness type, network,
> account, change flag and index, and its key material and address are what BIP32 derivation
> from the wallet's master key gives for that path. Indices are issued without gaps or repeats,
> no two keys of a wallet share an address, and recreating the wallet from the same seed,
> mnemonic or extended key - private, or watch-only from the account public key - reproduces
> the same addresses.

Three layers: (1) the generated `WALLET_KEY_STRUCTURES` table is pinned against the BIPs (purpose
numbers, level order, hardened levels) by `decide`; (2) `expand` (= `path_expand`) of each template
is computed symbolically for every value of the variables, and is injective; (3) the machine of
key rows hands out indices `0, 1, 2, …` per chain without repeats — for every history, and
without gaps for every history of `new_key(s)` / `get_key(s)` / marking keys used.  That the key
material and the address at a path are the BIP32 / address-encoding ones is C03 / C04 / C11; the
correspondence run derives every key a real wallet hands out independently with the Lean BIP32 and
address functions.  Determinism of re-creation is a property of a pure function of seed and history;
the run re-creates wallets from seed, mnemonic, xprv and account xpub and compares addresses.
-/
namespace Btc.C09
open Btc.Gen Btc.KeyPaths

/-! ## (1) the table -/

def shape (k : KeyStructure) : Option Nat × List (String × Bool) × String × String :=
  (k.purpose, k.keyPath.map (fun l => (l.name, l.hardened)), k.scriptType, k.encoding)

/-- BIP44: m / 44' / coin_type' / account' / change / address_index, P2PKH -/
theorem table_bip44 : (structureFor "legacy" false).map shape = some (some 44,
    [("m", false), ("purpose", true), ("coin_type", true), ("account", true), ("change", false), ("address_index", false)],
    "p2pkh", "base58") := by decide

/-- BIP49: m / 49' / coin_type' / account' / change / address_index, P2SH-P2WPKH -/
theorem table_bip49 : (structureFor "p2sh-segwit" false).map shape = some (some 49,
    [("m", false), ("purpose", true), ("coin_type", true), ("account", true), ("change", false), ("address_index", false)],
    "p2sh-p2wpkh", "base58") := by decide

/-- BIP84: m / 84' / coin_type' / account' / change / address_index, P2WPKH -/
theorem table_bip84 : (structureFor "segwit" false).map shape = some (some 84,
    [("m", false), ("purpose", true), ("coin_type", true), ("account", true), ("change", false), ("address_index", false)],
    "p2wpkh", "bech32") := by decide

/-- BIP45: m / 45' / cosigner_index / change / address_index, P2SH multisig -/
theorem table_bip45 : (structureFor "legacy" true).map shape = some (some 45,
    [("m", false), ("purpose", true), ("cosigner_index", false), ("change", false), ("address_index", false)],
    "p2sh", "base58") := by decide

/-- BIP48: m / 48' / coin_type' / account' / script_type' / change / address_index -/
theorem table_bip48_nested : (structureFor "p2sh-segwit" true).map shape = some (some 48,
    [("m", false), ("purpose", true), ("coin_type", true), ("account", true), ("script_type", true), ("change", false), ("address_index", false)],
    "p2sh-p2wsh", "base58") := by decide

theorem table_bip48_native : (structureFor "segwit" true).map shape = some (some 48,
    [("m", false), ("purpose", true), ("coin_type", true), ("account", true), ("script_type", true), ("change", false), ("address_index", false)],
    "p2wsh", "bech32") := by decide

/-! ## (2) the path of a key, for every value of the variables -/

def h (n : Nat) : Elem := { idx := n, hard := true }
def s (n : Nat) : Elem := { idx := n, hard := false }

/-- single-signature wallets: m / purpose' / coin' / account' / change / index with purpose 44, 49, 84 -/
theorem path_single (c : Chain) (i : Nat) :
    (c.witnessType = "legacy" → pathOf false c i = some [h 44, h c.coinType, h c.account, s c.change, s i]) ∧
    (c.witnessType = "p2sh-segwit" → pathOf false c i = some [h 49, h c.coinType, h c.account, s c.change, s i]) ∧
    (c.witnessType = "segwit" → pathOf false c i = some [h 84, h c.coinType, h c.account, s c.change, s i]) := by
  refine ⟨?_, ?_, ?_⟩ <;> intro hw <;> unfold pathOf <;> rw [hw] <;> rfl

/-- multisig wallets: BIP45 and BIP48 (script type 1' nested, 2' native) -/
theorem path_multisig (c : Chain) (i : Nat) :
    (c.witnessType = "legacy" → pathOf true c i = some [h 45, s c.cosigner, s c.change, s i]) ∧
    (c.witnessType = "p2sh-segwit" → pathOf true c i = some [h 48, h c.coinType, h c.account, h 1, s c.change, s i]) ∧
    (c.witnessType = "segwit" → pathOf true c i = some [h 48, h c.coinType, h c.account, h 2, s c.change, s i]) := by
  refine ⟨?_, ?_, ?_⟩ <;> intro hw <;> unfold pathOf <;> rw [hw]
  · rfl
  · have : scriptTypeId c.witnessType = 1 := by rw [hw]; rfl
    simp only [varsOf, this]; rfl
  · have : scriptTypeId c.witnessType = 2 := by rw [hw]; rfl
    simp only [varsOf, this]; rfl

/-- different indices give different paths (all six structures) -/
theorem path_index_injective (ms : Bool) (c : Chain) (i j : Nat) (p : Path)
    (hw : c.witnessType = "legacy" ∨ c.witnessType = "p2sh-segwit" ∨ c.witnessType = "segwit")
    (hi : pathOf ms c i = some p) (hj : pathOf ms c j = some p) : i = j := by
  cases ms
  · rcases hw with hw | hw | hw
    · rw [(path_single c i).1 hw] at hi; rw [(path_single c j).1 hw] at hj
      rw [← hi] at hj; simpa [s] using hj.symm
    · rw [(path_single c i).2.1 hw] at hi; rw [(path_single c j).2.1 hw] at hj
      rw [← hi] at hj; simpa [s] using hj.symm
    · rw [(path_single c i).2.2 hw] at hi; rw [(path_single c j).2.2 hw] at hj
      rw [← hi] at hj; simpa [s] using hj.symm
  · rcases hw with hw | hw | hw
    · rw [(path_multisig c i).1 hw] at hi; rw [(path_multisig c j).1 hw] at hj
      rw [← hi] at hj; simpa [s] using hj.symm
    · rw [(path_multisig c i).2.1 hw] at hi; rw [(path_multisig c j).2.1 hw] at hj
      rw [← hi] at hj; simpa [s] using hj.symm
    · rw [(path_multisig c i).2.2 hw] at hi; rw [(path_multisig c j).2.2 hw] at hj
      rw [← hi] at hj; simpa [s] using hj.symm

/-- single-signature wallets: two keys with the same path are the same key (witness type,
coin type, account, change and index) -/
theorem path_single_injective (c d : Chain) (i j : Nat) (p : Path)
    (hc : c.witnessType = "legacy" ∨ c.witnessType = "p2sh-segwit" ∨ c.witnessType = "segwit")
    (hd : d.witnessType = "legacy" ∨ d.witnessType = "p2sh-segwit" ∨ d.witnessType = "segwit")
    (hi : pathOf false c i = some p) (hj : pathOf false d j = some p) :
    c.witnessType = d.witnessType ∧ c.coinType = d.coinType ∧ c.account = d.account ∧ c.change = d.change ∧ i = j := by
  rcases hc with hc | hc | hc <;> rcases hd with hd | hd | hd
  all_goals
    first
    | (rw [(path_single c i).1 hc] at hi) | (rw [(path_single c i).2.1 hc] at hi) | (rw [(path_single c i).2.2 hc] at hi)
  all_goals
    first
    | (rw [(path_single d j).1 hd] at hj) | (rw [(path_single d j).2.1 hd] at hj) | (rw [(path_single d j).2.2 hd] at hj)
  all_goals
    rw [← hi] at hj
    simp [h, s] at hj
  all_goals
    first
    | exact ⟨by rw [hc, hd], hj.1.symm, hj.2.1.symm, hj.2.2.1.symm, hj.2.2.2.symm⟩

/-! ## (3) the machine of key rows -/

/-- histories without explicit `key_for_path` requests -/
def Issued : Op → Prop
  | .keyForIndex _ _ => False
  | _ => True

/-- T1: after any history every key row lies at the path of its chain and index. -/
theorem rows_at_documented_path (ms : Bool) (ops : List Op) :
    ∀ r ∈ (run (init ms) ops).rows, pathOf ms r.chain r.index = some r.path := by
  have hi := inv_run (inv_init ms) ops
  have hm : (run (init ms) ops).multisig = ms := run_multisig ops (init ms)
  intro r hr
  have := hi.paths r hr
  rwa [hm] at this

/-- T2 (no repeats): after any history no two key rows have the same chain and address index —
hence (by `path_index_injective` / `path_single_injective`) not the same path. -/
theorem no_repeated_index (ms : Bool) (ops : List Op) :
    ((run (init ms) ops).rows.map fun r => (r.chain, r.index)).Nodup :=
  (inv_run (inv_init ms) ops).nodup

/-- T3 (no gaps): along any history of `new_key(s)` / `get_key(s)` / keys becoming used, the
indices of every chain are exactly `0, 1, …, k-1`, in the order in which the keys were created. -/
theorem issued_without_gaps (ms : Bool) (ops : List Op) (hops : ∀ op ∈ ops, Issued op) :
    GapFree (run (init ms) ops) := by
  have key : ∀ (ops : List Op) (st : St), Inv st → GapFree st → (∀ op ∈ ops, Issued op) → GapFree (run st ops) := by
    intro ops
    induction ops with
    | nil => intro st _ hg _; exact hg
    | cons op ops ih =>
      intro st hinv hg hops
      have hop := hops op (List.mem_cons_self)
      have hrest : ∀ o ∈ ops, Issued o := fun o ho => hops o (List.mem_cons_of_mem _ ho)
      show GapFree (run (step st op) ops)
      apply ih _ (inv_step hinv op) _ hrest
      cases op with
      | newKeys c n =>
        simp only [step]
        cases h : newKeys st c n with
        | none => exact hg
        | some p => exact gapfree_newKeys hinv hg c n p.1 p.2 h
      | getKeys c n =>
        simp only [step]
        cases h : getKeys st c n with
        | none => exact hg
        | some p =>
          unfold getKeys at h
          simp only at h
          split at h
          · cases h; exact hg
          · cases hk : newKeys st c (n - ((chainRows st c).filter fun r => !r.used && r.id > lastUsedId st c).length) with
            | none => simp [hk] at h
            | some q =>
              simp only [hk, Option.some.injEq] at h; subst h
              exact gapfree_newKeys hinv hg c _ q.1 q.2 hk
      | markUsed id => exact gapfree_markUsed hg id
      | keyForIndex c i => exact absurd hop (by simp [Issued])
  exact key ops (init ms) (inv_init ms) (by intro c; simp [chainRows, init]) hops

/-- the next key of a gap-free chain gets the number of keys the chain already has -/
theorem next_is_count (ms : Bool) (ops : List Op) (hops : ∀ op ∈ ops, Issued op) (c : Chain) :
    nextIndex (run (init ms) ops) c = (chainRows (run (init ms) ops) c).length :=
  nextIndex_of_gapfree (issued_without_gaps ms ops hops) c

end Btc.C09
