import BtcModel.KeyFormat
import BtcProofs.Properties.C11
import BtcProofs.Lemmas.Bytes
/-!
# C12 — Every key export format imports back to the same key and metadata

> Exporting any key in any supported representation (hex, bytes, integer, compressed or
> uncompressed WIF, extended private or public key with every network and witness-type prefix)
> and importing that representation yields a key with the same secret or public point,
> compression flag, chain code, depth, parent fingerprint and child number, and - when the format
> encodes it or it is supplied - the same network, witness type and multisig flag. For the
> self-describing formats (WIF, extended keys, BIP38) format detection never classifies private
> material as public or the reverse.
-/
namespace Btc.C12
open Btc

theorem beVal_beBytes (n k : Nat) (h : n < 256 ^ k) : beVal (beBytes n k) = n := by
  unfold beVal beBytes; rw [List.reverse_reverse, leVal_leBytes, Nat.mod_eq_of_lt h]

theorem beBytes_length (n k : Nat) : (beBytes n k).length = k := by simp [beBytes]

/-- T1: WIF export then import returns version, secret and compression flag — every secret below
2^256 (leading zero bytes included), any one-byte version, any checksum function. -/
theorem wifDec_wifEnc (H : Bytes → Bytes) (hH : ∀ x, 4 ≤ (H x).length) (ver : Bytes) (hv : ver.length = 1)
    (secret : Nat) (hs : secret < 2^256) (compressed : Bool) :
    wifDec H (wifEnc H ver secret compressed) = some (ver, secret, compressed) := by
  unfold wifDec wifEnc
  rw [C11.b58checkDec_b58checkEnc H hH]
  have hs' : secret < 256 ^ 32 := by omega
  cases compressed
  · simp only [Bool.false_eq_true, if_false, List.append_nil]
    have hl : (ver ++ beBytes secret 32).length = 33 := by simp [hv, beBytes_length]
    rw [if_pos hl]
    have e1 : (ver ++ beBytes secret 32).take 1 = ver := by
      rw [← hv]; simp
    have e2 : (ver ++ beBytes secret 32).drop 1 = beBytes secret 32 := by
      rw [← hv]; simp
    rw [e1, e2, beVal_beBytes _ _ hs']
  · simp only [if_true]
    have hl : (ver ++ beBytes secret 32 ++ [1]).length = 34 := by simp [hv, beBytes_length]
    rw [if_neg (by omega)]
    have hlast : (ver ++ beBytes secret 32 ++ [1]).getLast? = some 1 := by simp
    rw [if_pos ⟨hl, hlast⟩]
    have e1 : (ver ++ beBytes secret 32 ++ [1]).take 1 = ver := by
      rw [List.append_assoc, ← hv]; simp
    have e2 : ((ver ++ beBytes secret 32 ++ [1]).drop 1).take 32 = beBytes secret 32 := by
      rw [List.append_assoc, ← hv]; simp [beBytes_length]
    rw [e1, e2, beVal_beBytes _ _ hs']

/-- F21 witness: an uncompressed WIF whose secret ends in 01 — the last-byte rule imports it as a
*different* secret and as compressed (for any checksum function). -/
theorem F21_witness (H : Bytes → Bytes) (hH : ∀ x, 4 ≤ (H x).length) :
    wifDecLastByte H (wifEnc H [0x80] 0x0201 false) ≠ wifDec H (wifEnc H [0x80] 0x0201 false) := by
  rw [wifDec_wifEnc H hH [0x80] rfl 0x0201 (by decide) false]
  unfold wifDecLastByte wifEnc
  rw [C11.b58checkDec_b58checkEnc H hH]
  decide

/-- T2: extended key export then import returns all six fields. -/
theorem xkeyDec_xkeyEnc (H : Bytes → Bytes) (hH : ∀ x, 4 ≤ (H x).length) (k : XKeyData) (hk : k.WF) :
    xkeyDec H (xkeyEnc H k) = some k := by
  obtain ⟨h1, h2, h3, h4, h5, h6⟩ := hk
  unfold xkeyDec xkeyEnc
  rw [C11.b58checkDec_b58checkEnc H hH]
  simp only [Option.bind]
  unfold xkeyOfPayload xkeyPayload
  have hl : (beBytes k.version 4 ++ beBytes k.depth 1 ++ k.parentFp ++ beBytes k.childNum 4 ++ k.chain ++ k.keyData).length = 78 := by
    simp [beBytes_length, h3, h5, h6]
  rw [if_neg (by omega)]
  have a1 : (beBytes k.version 4 ++ beBytes k.depth 1 ++ k.parentFp ++ beBytes k.childNum 4 ++ k.chain ++ k.keyData)
      = beBytes k.version 4 ++ (beBytes k.depth 1 ++ (k.parentFp ++ (beBytes k.childNum 4 ++ (k.chain ++ k.keyData)))) := by
    simp [List.append_assoc]
  rw [a1]
  have t1 : (beBytes k.version 4 ++ (beBytes k.depth 1 ++ (k.parentFp ++ (beBytes k.childNum 4 ++ (k.chain ++ k.keyData))))).take 4
      = beBytes k.version 4 := by simp [beBytes_length]
  have d4 : (beBytes k.version 4 ++ (beBytes k.depth 1 ++ (k.parentFp ++ (beBytes k.childNum 4 ++ (k.chain ++ k.keyData))))).drop 4
      = beBytes k.depth 1 ++ (k.parentFp ++ (beBytes k.childNum 4 ++ (k.chain ++ k.keyData))) := by simp [beBytes_length]
  have d5 : (beBytes k.version 4 ++ (beBytes k.depth 1 ++ (k.parentFp ++ (beBytes k.childNum 4 ++ (k.chain ++ k.keyData))))).drop 5
      = k.parentFp ++ (beBytes k.childNum 4 ++ (k.chain ++ k.keyData)) := by
    rw [show 5 = 4 + 1 by rfl, ← List.drop_drop, d4]; simp [beBytes_length]
  have d9 : (beBytes k.version 4 ++ (beBytes k.depth 1 ++ (k.parentFp ++ (beBytes k.childNum 4 ++ (k.chain ++ k.keyData))))).drop 9
      = beBytes k.childNum 4 ++ (k.chain ++ k.keyData) := by
    rw [show 9 = 5 + 4 by rfl, ← List.drop_drop, d5, ← h3]; simp
  have d13 : (beBytes k.version 4 ++ (beBytes k.depth 1 ++ (k.parentFp ++ (beBytes k.childNum 4 ++ (k.chain ++ k.keyData))))).drop 13
      = k.chain ++ k.keyData := by
    rw [show 13 = 9 + 4 by rfl, ← List.drop_drop, d9]; simp [beBytes_length]
  have d45 : (beBytes k.version 4 ++ (beBytes k.depth 1 ++ (k.parentFp ++ (beBytes k.childNum 4 ++ (k.chain ++ k.keyData))))).drop 45
      = k.keyData := by
    rw [show 45 = 13 + 32 by rfl, ← List.drop_drop, d13, ← h5]; simp
  rw [t1, d4, d5, d9, d13, d45]
  have v1 := beVal_beBytes k.version 4 (by omega)
  have v2 : beVal ((beBytes k.depth 1 ++ (k.parentFp ++ (beBytes k.childNum 4 ++ (k.chain ++ k.keyData)))).take 1) = k.depth := by
    have : (beBytes k.depth 1 ++ (k.parentFp ++ (beBytes k.childNum 4 ++ (k.chain ++ k.keyData)))).take 1 = beBytes k.depth 1 := by
      simp [beBytes_length]
    rw [this]; exact beVal_beBytes k.depth 1 (by omega)
  have v3 : (k.parentFp ++ (beBytes k.childNum 4 ++ (k.chain ++ k.keyData))).take 4 = k.parentFp := by
    rw [← h3]; simp
  have v4 : beVal ((beBytes k.childNum 4 ++ (k.chain ++ k.keyData)).take 4) = k.childNum := by
    have : (beBytes k.childNum 4 ++ (k.chain ++ k.keyData)).take 4 = beBytes k.childNum 4 := by simp [beBytes_length]
    rw [this]; exact beVal_beBytes k.childNum 4 (by omega)
  have v5 : (k.chain ++ k.keyData).take 32 = k.chain := by rw [← h5]; simp
  rw [v1, v2, v3, v4, v5]

/-! ## Table theorems on the generated prefix table -/

def netWifs (name : String) : List Gen.WifPrefix := ((Gen.networks.find? (·.name == name)).map (·.wifs)).getD []

/-- no 4-byte version is listed both as private and as public, in any network or across networks:
an extended key string can never be classified as the wrong kind -/
theorem version_private_public_disjoint :
    (Gen.networks.flatMap (·.wifs)).all (fun a =>
      (Gen.networks.flatMap (·.wifs)).all (fun b => a.version != b.version || a.isPrivate == b.isPrivate)) = true := by
  decide +kernel

/-- the version bytes of the main network are the published BIP32 / SLIP-132 ones -/
theorem bitcoin_versions :
    versionFor "bitcoin" true "legacy" false = some 0x0488ADE4 ∧ versionFor "bitcoin" false "legacy" false = some 0x0488B21E ∧
    versionFor "bitcoin" true "p2sh-segwit" false = some 0x049D7878 ∧ versionFor "bitcoin" false "p2sh-segwit" false = some 0x049D7CB2 ∧
    versionFor "bitcoin" true "segwit" false = some 0x04B2430C ∧ versionFor "bitcoin" false "segwit" false = some 0x04B24746 ∧
    versionFor "bitcoin" true "segwit" true = some 0x02AA7A99 ∧ versionFor "bitcoin" false "segwit" true = some 0x02AA7ED3 := by
  decide +kernel

/-- on the main network a version determines the witness type and the multisig flag except for the
legacy pair (xprv/xpub are used for single-sig and multisig alike): the pinned ambiguity set -/
theorem bitcoin_version_ambiguity :
    (netWifs "bitcoin").all (fun a => (netWifs "bitcoin").all (fun b =>
      a.version != b.version || (a.witnessType == b.witnessType && (a.multisig == b.multisig || a.witnessType == "legacy")))) = true := by
  decide +kernel

/-! ## Import decision for extended keys (`xkeyImport`, run against `HDKey(...)` / `HDKey.from_wif` on strings with a right checksum and a
wrong payload) -/

/-- soundness: whatever is imported has a known version and a key field of the kind every table entry of that version announces -/
theorem xkeyImport_sound (H : Bytes → Bytes) (s : List Char) (k : XKeyData) (h : xkeyImport H s = some k) :
    xkeyDec H s = some k ∧ versionEntries k.version ≠ [] ∧
    ∀ e ∈ versionEntries k.version, keyFieldOk e.2.isPrivate k.keyData = true := by
  unfold xkeyImport at h
  cases hd : xkeyDec H s with
  | none => rw [hd] at h; cases h
  | some k' =>
    rw [hd] at h
    simp only at h
    by_cases he : (versionEntries k'.version).isEmpty = true
    · rw [he] at h; simp at h
    · have he' : (versionEntries k'.version).isEmpty = false := by simpa using he
      rw [he'] at h
      simp only [Bool.false_eq_true, if_false] at h
      by_cases ha : (versionEntries k'.version).all (fun e => keyFieldOk e.2.isPrivate k'.keyData) = true
      · rw [ha] at h
        simp only [if_true] at h
        cases h
        refine ⟨rfl, ?_, ?_⟩
        · intro hnil; rw [hnil] at he'; simp at he'
        · intro e hemem; exact (List.all_eq_true.mp ha) e hemem
      · have ha' : (versionEntries k'.version).all (fun e => keyFieldOk e.2.isPrivate k'.keyData) = false := by simpa using ha
        rw [ha'] at h; simp at h

/-- completeness: the export of a well-formed key whose version is in the table and whose key field is of the announced kind imports back
to exactly that key (with `xkeyDec_xkeyEnc`) -/
theorem xkeyImport_xkeyEnc (H : Bytes → Bytes) (hH : ∀ x, 4 ≤ (H x).length) (k : XKeyData) (hk : k.WF)
    (hv : versionEntries k.version ≠ []) (hf : ∀ e ∈ versionEntries k.version, keyFieldOk e.2.isPrivate k.keyData = true) :
    xkeyImport H (xkeyEnc H k) = some k := by
  unfold xkeyImport
  rw [xkeyDec_xkeyEnc H hH k hk]
  simp only
  have he : (versionEntries k.version).isEmpty = false := by
    cases hl : versionEntries k.version with
    | nil => exact absurd hl hv
    | cons a l => rfl
  rw [he]
  simp only [Bool.false_eq_true, if_false]
  have ha : (versionEntries k.version).all (fun e => keyFieldOk e.2.isPrivate k.keyData) = true :=
    List.all_eq_true.mpr hf
  rw [ha]; simp

/-- a private version with a public key in the key field (finding F70) is refused -/
example : keyFieldOk true (0x02 :: List.replicate 32 0x11) = false ∧ keyFieldOk false (0x00 :: List.replicate 32 0x11) = false ∧
    keyFieldOk true (0x00 :: List.replicate 32 0x11) = true ∧ keyFieldOk false (0x03 :: List.replicate 32 0x11) = true := by decide

end Btc.C12
