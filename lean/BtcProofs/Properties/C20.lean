import BtcModel.Service
/-!
# C20 — Service layer fails over between providers and never fabricates answers

> A blockchain query through the service layer returns exactly what one responding provider
> returned (or the cached copy of such an answer) for every pattern of provider failures:
> providers that raise, time out or answer empty are skipped, and only when no provider answers,
> or the error limit is reached first, does the query fail with an error rather than with partial
> or invented data. Answers served from the cache equal the answers that were stored.

`execLoop` is the loop of `Service._provider_execute` (any number of providers, any outcomes).
-/
namespace Btc.C20
open Btc

/-- invariant of the loop state: every recorded result is the answer of the provider at that
position -/
def ResultsFrom (all : List Outcome) (st : ExecState) : Prop :=
  ∀ (p v : Nat), (p, v) ∈ st.results → all[p]? = some (Outcome.ok v)

theorem loop_results (maxP maxE : Nat) (all : List Outcome) :
    ∀ (rest : List Outcome) (pos : Nat) (st : ExecState),
      all.drop pos = rest → ResultsFrom all st →
      ResultsFrom all (execLoop maxP maxE rest pos st).2 := by
  intro rest
  induction rest with
  | nil => intro pos st _ h; simpa [execLoop] using h
  | cons o rest ih =>
    intro pos st hd hinv
    have hget : all[pos]? = some o := by
      have := congrArg List.head? hd
      simpa [List.head?_drop] using this
    have hd' : all.drop (pos + 1) = rest := by
      have := congrArg List.tail hd
      simpa [List.tail_drop] using this
    unfold execLoop
    split
    · exact hinv
    · cases o with
      | skipped => exact ih (pos + 1) st hd' hinv
      | ok v =>
        apply ih (pos + 1) _ hd'
        intro p w hm
        simp only [List.mem_append, List.mem_singleton, Prod.mk.injEq] at hm
        rcases hm with hm | ⟨rfl, rfl⟩
        · exact hinv p w hm
        · exact hget
      | empty => exact ih (pos + 1) _ hd' (by intro p w hm; exact hinv p w hm)
      | raises =>
        simp only
        split
        · intro p w hm; exact hinv p w hm
        · exact ih (pos + 1) _ hd' (by intro p w hm; exact hinv p w hm)
      | attrErr =>
        simp only
        split
        · exact hinv
        · exact ih (pos + 1) st hd' hinv

/-- the value returned is always the head of the recorded results -/
theorem loop_value (maxP maxE : Nat) : ∀ (rest : List Outcome) (pos : Nat) (st : ExecState) (v : Nat),
    (execLoop maxP maxE rest pos st).1 = .value v →
    ∃ p, (p, v) ∈ (execLoop maxP maxE rest pos st).2.results := by
  intro rest
  induction rest with
  | nil =>
    intro pos st v h
    simp only [execLoop] at h ⊢
    cases hr : st.results with
    | nil => simp [hr] at h
    | cons x xs => obtain ⟨p, w⟩ := x; simp [hr] at h; subst h; exact ⟨p, by simp⟩
  | cons o rest ih =>
    intro pos st v h
    unfold execLoop at h ⊢
    split at h
    · rename_i hc
      simp only [hc, if_true]
      cases hr : st.results with
      | nil => simp [hr] at h
      | cons x xs => obtain ⟨p, w⟩ := x; simp [hr] at h; subst h; exact ⟨p, by simp⟩
    · rename_i hc
      simp only [hc, if_false]
      cases o with
      | skipped => exact ih _ _ v h
      | ok w => exact ih _ _ v h
      | empty => exact ih _ _ v h
      | raises =>
        simp only at h ⊢
        split at h
        · rename_i he
          simp only [he, if_true]
          unfold firstResult at h
          cases hr : st.results with
          | nil => simp [hr] at h
          | cons x xs => obtain ⟨p, w⟩ := x; simp [hr] at h; subst h; exact ⟨p, by simp [hr]⟩
        · rename_i he
          simp only [he, if_false]
          exact ih _ _ v h
      | attrErr =>
        simp only at h ⊢
        split at h
        · rename_i he
          simp only [he, if_true]
          unfold firstResult at h
          cases hr : st.results with
          | nil => simp [hr] at h
          | cons x xs => obtain ⟨p, w⟩ := x; simp [hr] at h; subst h; exact ⟨p, by simp [hr]⟩
        · rename_i he
          simp only [he, if_false]
          exact ih _ _ v h

/-- T1 (never fabricated): whatever `_provider_execute` returns as a value is exactly the answer
one of the providers gave — for any number of providers, any outcomes, any limits. -/
theorem execute_value_from_provider (maxP maxE : Nat) (outs : List Outcome) (v : Nat)
    (h : (execute maxP maxE outs).1 = .value v) : ∃ p : Nat, outs[p]? = some (Outcome.ok v) := by
  unfold execute at h
  obtain ⟨p, hp⟩ := loop_value maxP maxE outs 0 ⟨[], []⟩ v h
  have hinv := loop_results maxP maxE outs outs 0 ⟨[], []⟩ (by simp) (by intro p w hm; simp at hm)
  exact ⟨p, hinv p v hp⟩

/-- T2: if no provider answers, the query never yields a value (it fails: error or False) -/
theorem no_answer_no_value (maxP maxE : Nat) (outs : List Outcome) (hno : ∀ (p v : Nat), outs[p]? ≠ some (Outcome.ok v)) (v : Nat) :
    (execute maxP maxE outs).1 ≠ .value v := by
  intro h
  obtain ⟨p, hp⟩ := execute_value_from_provider maxP maxE outs v h
  exact hno p v hp

/-- T3 (failover with the default limits): providers that are skipped, answer empty or raise are
passed over and the first answering provider's answer is returned, as long as fewer than
`maxErrors` exceptions were recorded before it. -/
theorem failover_first_ok (maxE : Nat) (pre : List Outcome) (v : Nat) (post : List Outcome)
    (hpre : ∀ o ∈ pre, o = .skipped ∨ o = .empty ∨ o = .raises ∨ o = .attrErr)
    (herr : (pre.filter (fun o => o = .empty ∨ o = .raises)).length < maxE) :
    (execute 1 maxE (pre ++ Outcome.ok v :: post)).1 = .value v := by
  unfold execute
  suffices h : ∀ (pre : List Outcome) (pos : Nat) (errs : List Nat),
      (∀ o ∈ pre, o = .skipped ∨ o = .empty ∨ o = .raises ∨ o = .attrErr) →
      errs.length + (pre.filter (fun o => o = .empty ∨ o = .raises)).length < maxE →
      (execLoop 1 maxE (pre ++ Outcome.ok v :: post) pos ⟨[], errs⟩).1 = .value v from
    h pre 0 [] hpre (by simpa using herr)
  intro pre
  induction pre with
  | nil =>
    intro pos errs _ _
    simp only [List.nil_append]
    unfold execLoop
    simp only [List.length_nil, ge_iff_le, Nat.le_zero_eq, Nat.succ_ne_zero, if_false, List.nil_append]
    cases post with
    | nil => simp [execLoop]
    | cons o os => unfold execLoop; simp
  | cons o pre ih =>
    intro pos errs hall hlen
    have ho := hall o (by simp)
    have hall' : ∀ x ∈ pre, x = .skipped ∨ x = .empty ∨ x = .raises ∨ x = .attrErr := fun x hx => hall x (by simp [hx])
    simp only [List.cons_append]
    unfold execLoop
    simp only [List.length_nil, ge_iff_le, Nat.le_zero_eq, Nat.succ_ne_zero, if_false]
    rcases ho with rfl | rfl | rfl | rfl
    · simp only
      apply ih (pos + 1) errs hall'
      simpa [List.filter] using hlen
    · simp only
      apply ih (pos + 1) (errs ++ [pos]) hall'
      simp [List.filter] at hlen ⊢; omega
    · simp only
      have : ¬ ((errs ++ [pos]).length ≥ maxE) := by simp [List.filter] at hlen ⊢; omega
      rw [if_neg this]
      apply ih (pos + 1) (errs ++ [pos]) hall'
      simp [List.filter] at hlen ⊢; omega
    · simp only
      have : ¬ (errs.length ≥ maxE) := by simp [List.filter] at hlen; omega
      rw [if_neg this]
      apply ih (pos + 1) errs hall'
      simpa [List.filter] using hlen

-- examples (tests): failover past two failing providers; error limit reached first; nothing answers
example : (execute 1 4 [.raises, .empty, .ok 7, .ok 9]).1 = .value 7 := by decide
example : (execute 1 1 [.raises, .ok 7]).1 = .falseRet := by decide
example : (execute 1 4 [.raises, .empty, .skipped]).1 = .error := by decide

end Btc.C20

namespace Btc.C20
open Btc

/-- `(k, v)` was answered by some provider in one of the queries -/
def Answered (qs : List Query) (k v : Nat) : Prop :=
  ∃ q ∈ qs, q.key = k ∧ ∃ p : Nat, q.outcomes[p]? = some (Outcome.ok v)

theorem cacheGet_mem {c : Cache} {k v : Nat} (h : cacheGet c k = some v) : (k, v) ∈ c := by
  unfold cacheGet at h
  cases hf : c.find? (fun p => p.1 == k) with
  | none => simp [hf] at h
  | some p =>
    simp only [hf, Option.map_some, Option.some.injEq] at h
    have hm := List.mem_of_find?_eq_some hf
    have hp := List.find?_some hf
    simp only [beq_iff_eq] at hp
    have : p = (k, v) := by cases p; simp_all
    exact this ▸ hm

/-- T4 (cache): a value read from the cache is the value that was stored for that key; storing for
another key does not change it. -/
theorem cache_get_put (c : Cache) (k v : Nat) (h : cacheGet c k = none) : cacheGet (cachePut c k v) k = some v := by
  unfold cachePut
  simp only [h, Option.isSome_none, Bool.false_eq_true, if_false]
  unfold cacheGet at h ⊢
  rw [List.find?_append]
  cases hf : c.find? (fun p => p.1 == k) with
  | none => simp
  | some p => simp [hf] at h

theorem cache_get_put_other (c : Cache) (k k' v : Nat) (hk : k' ≠ k) : cacheGet (cachePut c k v) k' = cacheGet c k' := by
  unfold cachePut
  split
  · rfl
  · unfold cacheGet
    rw [List.find?_append]
    cases hf : c.find? (fun p => p.1 == k') with
    | some p => simp
    | none =>
      have : ((k, v).1 == k') = false := by simp; exact fun e => hk e.symm
      simp [List.find?_cons, this]

theorem queryStep_sound (c : Cache) (q : Query) (past : List Query)
    (hc : ∀ k v, (k, v) ∈ c → Answered past k v) :
    (∀ k v, (k, v) ∈ (queryStep c q).1 → Answered (past ++ [q]) k v) ∧
    (∀ v, (queryStep c q).2 = .value v → Answered (past ++ [q]) q.key v) := by
  have lift : ∀ k v, Answered past k v → Answered (past ++ [q]) k v := by
    rintro k v ⟨q0, hq0, hk, hp⟩
    exact ⟨q0, List.mem_append_left _ hq0, hk, hp⟩
  unfold queryStep
  cases hg : cacheGet c q.key with
  | some v0 =>
    simp only
    refine ⟨fun k v hm => lift k v (hc k v hm), ?_⟩
    intro v hv
    cases hv
    exact lift _ _ (hc _ _ (cacheGet_mem hg))
  | none =>
    simp only
    cases hr : (execute q.maxProviders q.maxErrors q.outcomes).1 with
    | value v0 =>
      simp only
      obtain ⟨p, hp⟩ := execute_value_from_provider _ _ _ _ hr
      have hnew : Answered (past ++ [q]) q.key v0 := ⟨q, by simp, rfl, p, hp⟩
      refine ⟨?_, fun v hv => by cases hv; exact hnew⟩
      intro k v hm
      unfold cachePut at hm
      simp only [hg, Option.isSome_none, Bool.false_eq_true, if_false] at hm
      rcases List.mem_append.mp hm with hm | hm
      · exact lift k v (hc k v hm)
      · simp at hm; obtain ⟨rfl, rfl⟩ := hm; exact hnew
    | falseRet => exact ⟨fun k v hm => lift k v (hc k v hm), fun v hv => by cases hv⟩
    | error => exact ⟨fun k v hm => lift k v (hc k v hm), fun v hv => by cases hv⟩

/-- T5 (never fabricated, over histories): along any sequence of queries — cold, warm or
partially filled cache, any provider failures — every value returned for a key is a value some
provider answered for that key in this or an earlier query. -/
theorem answers_from_providers : ∀ (qs past : List Query) (c : Cache),
    (∀ k v, (k, v) ∈ c → Answered past k v) →
    ∀ (i : Nat) (v : Nat), (runQueries c qs).2[i]? = some (ExecResult.value v) →
      ∃ q, qs[i]? = some q ∧ Answered (past ++ qs) q.key v
  | [], _, _, _, i, v, h => by simp [runQueries] at h
  | q :: qs, past, c, hc, i, v, h => by
    obtain ⟨h1, h2⟩ := queryStep_sound c q past hc
    simp only [runQueries] at h
    cases i with
    | zero =>
      simp only [List.getElem?_cons_zero, Option.some.injEq] at h
      refine ⟨q, rfl, ?_⟩
      obtain ⟨q0, hq0, hk, hp⟩ := h2 v h
      exact ⟨q0, by rw [List.append_cons]; exact List.mem_append_left _ hq0, hk, hp⟩
    | succ i =>
      simp only [List.getElem?_cons_succ] at h
      obtain ⟨q', hq', ha⟩ := answers_from_providers qs (past ++ [q]) (queryStep c q).1 h1 i v h
      refine ⟨q', by simpa using hq', ?_⟩
      rw [List.append_cons]; exact ha

end Btc.C20
