import BtcProofs.Lemmas.Der
import BtcModel.Ecdsa
import Mathlib.Algebra.Field.ZMod
import Mathlib.Algebra.Module.Basic
import Mathlib.Tactic.FieldSimp
import Mathlib.Tactic.Ring
/-!
# C13 — ECDSA signatures are valid, canonical, deterministic; the verifier is exact

> Every signature the library produces verifies under the signer's public key with an
> independent secp256k1 ECDSA verifier, is strictly DER encoded with low S, and is a
> deterministic function of key and message whose nonce is never shared between different
> messages or keys. The library's verifier accepts a (message, signature, public key) triple
> exactly when standard ECDSA does, for well-formed and malformed inputs alike.

Algebraic part: over any `ZMod n`-module `P` (n prime) with an "x-coordinate" map `xr`; the group
facts of secp256k1 (points form a cyclic group of prime order n) are the hypotheses — they are
*not* proved here (trusted base).  Concrete part: the low-S rule and the exact locus of F10.
-/
namespace Btc.C13
open Btc

section Algebra
variable {n : ℕ} [Fact n.Prime] {P : Type} [AddCommGroup P] [Module (ZMod n) P]

/-- textbook ECDSA signing with explicit nonce -/
def sign (xr : P → ZMod n) (G : P) (d k z : ZMod n) : ZMod n × ZMod n :=
  let r := xr (k • G)
  (r, k⁻¹ * (z + r * d))

/-- textbook ECDSA verification (SEC1 4.1.4) -/
def verify (xr : P → ZMod n) (G Q : P) (z r s : ZMod n) : Prop :=
  r ≠ 0 ∧ s ≠ 0 ∧ xr ((z * s⁻¹) • G + (r * s⁻¹) • Q) = r

/-- T1: every signature made with a non-zero nonce (and non-zero r, s — the retry conditions of
the standard) verifies under the signer's public key `d • G`. -/
theorem verify_sign (xr : P → ZMod n) (G : P) (d k z : ZMod n) (hk : k ≠ 0)
    (hr : (sign xr G d k z).1 ≠ 0) (hs : (sign xr G d k z).2 ≠ 0) :
    verify xr G (d • G) z (sign xr G d k z).1 (sign xr G d k z).2 := by
  refine ⟨hr, hs, ?_⟩
  simp only [sign] at hr hs ⊢
  set r := xr (k • G) with hrdef
  have hzr : z + r * d ≠ 0 := by
    intro h0; apply hs; rw [h0, mul_zero]
  have key : (z * (k⁻¹ * (z + r * d))⁻¹) • G + (r * (k⁻¹ * (z + r * d))⁻¹) • d • G = k • G := by
    rw [smul_smul, ← add_smul]
    congr 1
    field_simp
  rw [key]

/-- T2: the high-S twin (r, -s) of a valid signature is valid too whenever negating a point keeps
its x-coordinate — so low-S normalisation preserves validity. -/
theorem verify_neg_s (xr : P → ZMod n) (hx : ∀ p, xr (-p) = xr p) (G Q : P) (z r s : ZMod n)
    (h : verify xr G Q z r s) : verify xr G Q z r (-s) := by
  obtain ⟨hr, hs, hv⟩ := h
  refine ⟨hr, neg_ne_zero.mpr hs, ?_⟩
  have : (z * (-s)⁻¹) • G + (r * (-s)⁻¹) • Q = -((z * s⁻¹) • G + (r * s⁻¹) • Q) := by
    rw [inv_neg, mul_neg, mul_neg, neg_smul, neg_smul, neg_add]
  rw [this, hx, hv]

end Algebra

/-! ## Low S -/

/-- T3: the normalised value is in (0, n/2] and is s or n - s -/
theorem lowS_spec (s : Nat) (h1 : 1 ≤ s) (h2 : s < secpOrder) :
    1 ≤ lowS s ∧ lowS s ≤ secpOrder / 2 ∧ (lowS s = s ∨ lowS s = secpOrder - s) := by
  unfold lowS secpOrder at *
  split <;> omega

/-- T4 (exact locus of F10): the float threshold yields a low S **iff** the raw s is not in
(n/2, 2^255]. -/
theorem lowSFloat_low_iff (s : Nat) (h1 : 1 ≤ s) (h2 : s < secpOrder) :
    lowSFloat s ≤ secpOrder / 2 ↔ ¬ (secpOrder / 2 < s ∧ s ≤ 2^255) := by
  unfold lowSFloat secpOrder at *
  split <;> omega

/-- outside that interval both rules agree -/
theorem lowSFloat_eq_lowS (s : Nat) (h : ¬ (secpOrder / 2 < s ∧ s ≤ 2^255)) : lowSFloat s = lowS s := by
  unfold lowSFloat lowS secpOrder at *
  split <;> split <;> omega

/-- F10 witness -/
theorem F10_witness : lowSFloat (secpOrder / 2 + 1) > secpOrder / 2 := by decide

/-- the interval is not empty: n/2 < 2^255 -/
example : secpOrder / 2 < 2^255 := by decide

/-- strict DER decoding of a known signature evaluates in the kernel (test) -/
example : derDecode [0x30, 0x06, 0x02, 0x01, 0x01, 0x02, 0x01, 0x02] = some (1, 2) := by decide

end Btc.C13

namespace Btc.C13
open Btc

/-- T (strict DER): decoding the DER encoding of a signature `(r, s)` with `1 ≤ r, s < 2^256`
gives back exactly `(r, s)` — in particular what the library serialises is accepted by the strict
(BIP66) decoder: minimal lengths, no negative and no zero-padded integers. -/
theorem derDecode_derEncode (r s : Nat) (hr1 : 1 ≤ r) (hr2 : r < 2 ^ 256) (hs1 : 1 ≤ s) (hs2 : s < 2 ^ 256) :
    derDecode (derEncode r s) = some (r, s) := by
  obtain ⟨rv, rl1, rl2, rok⟩ := derInt_spec r hr1 hr2
  obtain ⟨sv, sl1, sl2, sok⟩ := derInt_spec s hs1 hs2
  unfold derEncode
  generalize derInt r = rb at *
  generalize derInt s = sb at *
  have e1 : (UInt8.ofNat rb.length).toNat = rb.length := toNat_ofNat_lt (by omega)
  have e2 : (UInt8.ofNat sb.length).toNat = sb.length := toNat_ofNat_lt (by omega)
  have e3 : (UInt8.ofNat ([0x02, UInt8.ofNat rb.length] ++ rb ++ [0x02, UInt8.ofNat sb.length] ++ sb).length).toNat =
      rb.length + sb.length + 4 := by
    rw [toNat_ofNat_lt] <;> simp <;> omega
  simp only [List.cons_append, List.nil_append, List.append_assoc]
  unfold derDecode
  simp only [e1]
  have hlen : ¬ (rb ++ 2 :: UInt8.ofNat sb.length :: sb).length < rb.length + 2 := by simp
  rw [if_neg hlen]
  have hdrop : (rb ++ 2 :: UInt8.ofNat sb.length :: sb).drop rb.length = 2 :: UInt8.ofNat sb.length :: sb := by simp
  have htake : (rb ++ 2 :: UInt8.ofNat sb.length :: sb).take rb.length = rb := by simp
  rw [hdrop]
  simp only [htake, e2]
  have e3' : (UInt8.ofNat (rb ++ 2 :: UInt8.ofNat sb.length :: sb).length.succ.succ).toNat = rb.length + sb.length + 4 := by
    rw [toNat_ofNat_lt] <;> simp <;> omega
  simp only [List.length_cons, List.length_append] at e3' ⊢
  have hcond : (sb.length == sb.length &&
      (UInt8.ofNat (rb.length + (sb.length + 1 + 1) + 1 + 1)).toNat == rb.length + (sb.length + 1 + 1) + 1 + 1 + 1 + 1 - 2 &&
      derIntOk rb && derIntOk sb) = true := by
    have : (UInt8.ofNat (rb.length + (sb.length + 1 + 1) + 1 + 1)).toNat = rb.length + (sb.length + 1 + 1) + 1 + 1 := by
      rw [toNat_ofNat_lt]; omega
    simp [rok, sok]
    omega
  rw [if_pos hcond, rv, sv]

end Btc.C13
