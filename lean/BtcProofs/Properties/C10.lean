import BtcProofs.Lemmas.Placement
import BtcModel.Wallet.Multisig
import BtcProofs.Properties.C02
/-!
# C10 — Multisig cosigner wallets agree on scripts; exactly m distinct signers suffice

> All cosigner wallets created from the same n cosigner keys and threshold m - whichever key each
> holds privately and in whatever order the keys are supplied - derive the same redeem script and
> address for the same path. A spend becomes valid exactly when at least m distinct cosigners
> have signed, in any order and through any chain of export and import between the cosigner
> wallets; with fewer than m signatures it neither verifies nor is broadcast.

(1) The redeem script is a function of the *set* of public keys at the path: `redeemScript` of
any permutation of the keys is the same script (bytewise sorting is a total, antisymmetric
order), so the script hash and the address are the same in every cosigner wallet.
(2) The signatures of an input are the position-sorted, duplicate-free list of the cosigners
that signed: it does not depend on the signing order, signing twice changes nothing, and with the
verification loop of C02 the input verifies **iff** at least m distinct cosigners have signed.
That real wallets compute these scripts (keys re-derived with the Lean BIP32 model) and that
every hand-off form (object, dict, raw hex) carries the signer set is the correspondence run.
-/
namespace Btc.C10
open Btc Btc.Multisig

/-! ## (1) bytewise order and the redeem script -/

theorem bytesLe_refl : ∀ a : Bytes, bytesLe a a = true
  | [] => rfl
  | x :: l => by simp [bytesLe, bytesLe_refl l]

theorem bytesLe_total : ∀ a b : Bytes, (bytesLe a b || bytesLe b a) = true
  | [], _ => by simp [bytesLe]
  | _ :: _, [] => by simp [bytesLe]
  | x :: a, y :: b => by
    have ih := bytesLe_total a b
    simp only [bytesLe, Bool.or_eq_true, Bool.and_eq_true, decide_eq_true_eq, beq_iff_eq] at ih ⊢
    by_cases h1 : x.toNat < y.toNat
    · exact Or.inl (Or.inl h1)
    · by_cases h2 : y.toNat < x.toNat
      · exact Or.inr (Or.inl h2)
      · have : x.toNat = y.toNat := by omega
        rcases ih with h | h
        · exact Or.inl (Or.inr ⟨this, h⟩)
        · exact Or.inr (Or.inr ⟨this.symm, h⟩)

theorem bytesLe_trans : ∀ a b c : Bytes, bytesLe a b = true → bytesLe b c = true → bytesLe a c = true
  | [], _, _, _, _ => by simp [bytesLe]
  | _ :: _, [], _, h, _ => by simp [bytesLe] at h
  | _ :: _, _ :: _, [], _, h => by simp [bytesLe] at h
  | x :: a, y :: b, z :: c, h1, h2 => by
    simp only [bytesLe, Bool.or_eq_true, Bool.and_eq_true, decide_eq_true_eq, beq_iff_eq] at h1 h2 ⊢
    rcases h1 with h1 | ⟨e1, h1⟩ <;> rcases h2 with h2 | ⟨e2, h2⟩
    · exact Or.inl (by omega)
    · exact Or.inl (by omega)
    · exact Or.inl (by omega)
    · exact Or.inr ⟨by omega, bytesLe_trans a b c h1 h2⟩

theorem bytesLe_antisymm : ∀ a b : Bytes, bytesLe a b = true → bytesLe b a = true → a = b
  | [], [], _, _ => rfl
  | [], _ :: _, _, h => by simp [bytesLe] at h
  | _ :: _, [], h, _ => by simp [bytesLe] at h
  | x :: a, y :: b, h1, h2 => by
    simp only [bytesLe, Bool.or_eq_true, Bool.and_eq_true, decide_eq_true_eq, beq_iff_eq] at h1 h2
    rcases h1 with h1 | ⟨e1, h1⟩ <;> rcases h2 with h2 | ⟨e2, h2⟩
    · omega
    · omega
    · omega
    · have : x = y := UInt8.toNat_inj.mp e1
      rw [this, bytesLe_antisymm a b h1 h2]

/-- T1: sorting does not depend on the order in which the cosigner keys are supplied. -/
theorem sortKeys_perm (ks ks' : List Bytes) (h : ks.Perm ks') : sortKeys ks = sortKeys ks' := by
  unfold sortKeys
  apply List.Perm.eq_of_pairwise (le := fun a b => bytesLe a b = true)
  · intro a b _ _ h1 h2; exact bytesLe_antisymm a b h1 h2
  · exact List.pairwise_mergeSort (fun a b c => bytesLe_trans a b c) bytesLe_total ks
  · exact List.pairwise_mergeSort (fun a b c => bytesLe_trans a b c) bytesLe_total ks'
  · exact (List.mergeSort_perm ks bytesLe).trans (h.trans (List.mergeSort_perm ks' bytesLe).symm)

/-- T2: every cosigner wallet derives the same redeem script (hence the same script hash and
address) from the n public keys of a path, in whatever order it holds them. -/
theorem redeemScript_perm (m : Nat) (ks ks' : List Bytes) (h : ks.Perm ks') :
    redeemScript m ks = redeemScript m ks' := by
  unfold redeemScript; rw [sortKeys_perm ks ks' h]

/-- the script names exactly the supplied keys -/
theorem sortKeys_mem (ks : List Bytes) (k : Bytes) : k ∈ sortKeys ks ↔ k ∈ ks :=
  (List.mergeSort_perm ks bytesLe).mem_iff

/-! ## (2) who has signed -/

/-- strictly increasing -/
def Inc (l : List Nat) : Prop := l.Pairwise (· < ·)

theorem addSigner_mem (l : List Nat) (p x : Nat) : x ∈ addSigner l p ↔ x = p ∨ x ∈ l := by
  induction l with
  | nil => simp [addSigner]
  | cons q l ih =>
    unfold addSigner
    by_cases h1 : p < q
    · simp [h1]
    · by_cases h2 : p = q
      · subst h2; simp
      · simp only [h1, h2, if_false, List.mem_cons, ih]
        constructor
        · rintro (h | h | h)
          · exact Or.inr (Or.inl h)
          · exact Or.inl h
          · exact Or.inr (Or.inr h)
        · rintro (h | h | h)
          · exact Or.inr (Or.inl h)
          · exact Or.inl h
          · exact Or.inr (Or.inr h)

theorem addSigner_inc (l : List Nat) (p : Nat) (h : Inc l) : Inc (addSigner l p) := by
  induction l with
  | nil => simp [addSigner, Inc]
  | cons q l ih =>
    unfold Inc at h ih ⊢
    rw [List.pairwise_cons] at h
    unfold addSigner
    by_cases h1 : p < q
    · simp only [h1, if_true, List.pairwise_cons]
      refine ⟨?_, h.1, h.2⟩
      intro a ha
      rcases List.mem_cons.mp ha with e | e
      · omega
      · have := h.1 a e; omega
    · by_cases h2 : p = q
      · subst h2
        rw [if_neg (by omega), if_pos rfl, List.pairwise_cons]; exact ⟨h.1, h.2⟩
      · simp only [h1, h2, if_false, List.pairwise_cons]
        refine ⟨?_, ih h.2⟩
        intro a ha
        rcases (addSigner_mem l p a).mp ha with e | e
        · omega
        · exact h.1 a e

theorem foldl_addSigner (order : List Nat) : ∀ (acc : List Nat), Inc acc →
    Inc (order.foldl addSigner acc) ∧ ∀ x, x ∈ order.foldl addSigner acc ↔ x ∈ acc ∨ x ∈ order := by
  induction order with
  | nil => intro acc h; exact ⟨h, by simp⟩
  | cons p order ih =>
    intro acc h
    obtain ⟨h1, h2⟩ := ih (addSigner acc p) (addSigner_inc acc p h)
    refine ⟨h1, ?_⟩
    intro x
    simp only [List.foldl_cons, h2, addSigner_mem, List.mem_cons]
    constructor
    · rintro ((h | h) | h)
      · exact Or.inr (Or.inl h)
      · exact Or.inl h
      · exact Or.inr (Or.inr h)
    · rintro (h | h | h)
      · exact Or.inl (Or.inr h)
      · exact Or.inl (Or.inl h)
      · exact Or.inr h

/-- T3: the stored signatures are the cosigners that signed: sorted by key position, no cosigner
twice, whoever signed is there and nobody else. -/
theorem signedBy_spec (order : List Nat) :
    Inc (signedBy order) ∧ ∀ x, x ∈ signedBy order ↔ x ∈ order := by
  have := foldl_addSigner order [] (by simp [Inc])
  exact ⟨this.1, fun x => by rw [signedBy, this.2]; simp⟩

theorem inc_ext : ∀ (a b : List Nat), Inc a → Inc b → (∀ x, x ∈ a ↔ x ∈ b) → a = b := by
  intro a b ha hb hm
  apply List.Perm.eq_of_pairwise (le := fun x y => x ≤ y)
  · intro x y _ _ h1 h2; omega
  · exact List.Pairwise.imp (fun h => Nat.le_of_lt h) ha
  · exact List.Pairwise.imp (fun h => Nat.le_of_lt h) hb
  · have na : a.Nodup := List.Pairwise.imp (fun h => Nat.ne_of_lt h) ha
    have nb : b.Nodup := List.Pairwise.imp (fun h => Nat.ne_of_lt h) hb
    exact (List.perm_ext_iff_of_nodup na nb).mpr hm

/-- T4 (any order, any repetition): two signing histories by the same set of cosigners leave the
same signatures. -/
theorem signedBy_order_independent (o1 o2 : List Nat) (h : ∀ x, x ∈ o1 ↔ x ∈ o2) :
    signedBy o1 = signedBy o2 := by
  obtain ⟨i1, m1⟩ := signedBy_spec o1
  obtain ⟨i2, m2⟩ := signedBy_spec o2
  exact inc_ext _ _ i1 i2 (fun x => by rw [m1, m2, h])

/-- the verification relation of an input whose stored signature j is by the cosigner at position
`(signedBy order)[j]` -/
def okOf (order : List Nat) (j x : Nat) : Bool := (signedBy order)[j]? == some x

/-- T5 (exactly m distinct signers): with the verification loop of `Input.verify`, an m-of-n input
(1 ≤ m, all signers among the n keys) verifies **iff** at least m distinct cosigners have signed —
in any order, with any repetitions. -/
theorem valid_iff_m_signers (m n : Nat) (order : List Nat) (hm : 1 ≤ m) (hr : ∀ x ∈ order, x < n) :
    inputVerify m n (signedBy order).length (okOf order) = decide (m ≤ (signedBy order).length) := by
  obtain ⟨hinc, hmem⟩ := signedBy_spec order
  by_cases hle : m ≤ (signedBy order).length
  · rw [decide_eq_true hle]
    apply C02.inputVerify_complete m n _ (okOf order) (fun j => (signedBy order)[j]?.getD 0)
    · intro j hj
      simp [okOf, List.getElem?_eq_getElem hj]
    · intro j x hx
      simp only [okOf, beq_iff_eq] at hx
      simp [hx]
    · intro i j hij hj
      have hi : i < (signedBy order).length := by omega
      simp only [List.getElem?_eq_getElem hi, List.getElem?_eq_getElem hj, Option.getD_some]
      exact List.pairwise_iff_getElem.mp hinc i j hi hj hij
    · intro j hj
      simp only [List.getElem?_eq_getElem hj, Option.getD_some]
      exact hr _ ((hmem _).mp (List.getElem_mem hj))
    · omega
    · exact hle
  · rw [decide_eq_false hle]
    apply C02.fewer_than_m_valid_keys m n _ (okOf order) (signedBy order)
    · rintro x ⟨j, hj, hx⟩
      simp only [okOf, beq_iff_eq] at hx
      exact List.mem_of_getElem? hx
    · omega

/-- fewer than m distinct signers never verify, however often they sign -/
theorem fewer_signers_invalid (m n : Nat) (order : List Nat) (hm : 1 ≤ m) (hr : ∀ x ∈ order, x < n)
    (hlt : (signedBy order).length < m) : inputVerify m n (signedBy order).length (okOf order) = false := by
  rw [valid_iff_m_signers m n order hm hr]; simp; omega

-- non-vacuity: 2-of-3, cosigners 2 and 0 sign (cosigner 2 twice)
example : signedBy [2, 0, 2] = [0, 2] := by decide
example : inputVerify 2 3 (signedBy [2, 0, 2]).length (okOf [2, 0, 2]) = true := by decide
example : inputVerify 2 3 (signedBy [1, 1]).length (okOf [1, 1]) = false := by decide

/-- T6 (placement, repair F100): the signatures `Transaction.sign` stores - the new ones at the slots
of their keys, every known one at the slot of the key it verifies under, whether or not it still
carried that key - are the cosigners that signed, each once, in key order: exactly the list
`signedBy` that T3-T5 are about, for any number of known signatures, with or without their keys. -/
theorem placeAll_eq_signedBy (n : Nat) (new known : List Nat) (h1 : ∀ p ∈ new, p < n) (h2 : ∀ p ∈ known, p < n) :
    placeAll n new known = signedBy (new ++ known) := by
  unfold placeAll
  have a := foldl_putNew new (List.replicate n none) (slotsOk_replicate n) (by simpa using h1)
  have b := foldl_putKnown known _ a.1 (by rw [a.2.1]; simpa using h2)
  have hok : OkFrom 0 (known.foldl putKnown (new.foldl putNew (List.replicate n none))) := by
    intro j hj
    have := b.1 j hj
    simpa using this
  have c := filterMap_okFrom _ 0 hok
  obtain ⟨hinc, hmem⟩ := signedBy_spec (new ++ known)
  apply inc_ext _ _ c.1 hinc
  intro x
  rw [c.2 x, hmem x, List.mem_append]
  simp only [Nat.zero_le, true_and, Nat.sub_zero]
  rw [b.2.2 x, a.2.2 x]
  constructor
  · rintro (h | h | h)
    · exact Or.inr h
    · exact Or.inl h
    · exfalso
      by_cases hx : x < n
      · simp [hx] at h
      · have hn : (List.replicate n (none : Option Nat))[x]? = none :=
          List.getElem?_eq_none (by simp; omega)
        rw [hn] at h
        cases h
  · rintro (h | h)
    · exact Or.inr (Or.inl h)
    · exact Or.inl h

/-- the figures of F100: 2-of-5, the cosigners at positions 3, 0 and 1 have signed and the one at
position 2 signs now - four signatures, one per signer, in key order -/
example : placeAll 5 [2] [0, 1, 3] = [0, 1, 2, 3] := by decide


/-- ... whereas the loops before the repair, with one known signature that came without its key (the
cosigner at position 3), filled the free slots with the known signatures from the start again: the
signatures of positions 0 and 1 twice, the one of position 3 lost. -/
theorem pinned_placement_duplicates :
    placePinned 5 [2] [(0, true), (1, true), (3, false)] = [0, 1, 2, 0, 1] := by decide

end Btc.C10
