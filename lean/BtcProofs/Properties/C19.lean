import BtcModel.Script.Spec
import BtcModel.Script.Impl
import BtcModel.Gen.Opcodes
/-!
# C19 — Script evaluation agrees with Bitcoin consensus for the implemented opcodes

> Evaluating a script gives the result Bitcoin's consensus interpreter gives for the opcodes the
> library implements: the same final stack and the same success or failure, including operand
> order of arithmetic and comparison opcodes, stack manipulation, conditionals, hashing and
> signature checks. A script that consensus rejects is never reported as valid.

`Script/Spec.lean` is a transcription of consensus `EvalScript`; `Script/Impl.lean` is a
transcription of `Script.evaluate` / `Stack.op_*` as they are (after the recorded repairs).  The
differential run checks that the library equals `Impl` on every generated program and equals
`Spec` wherever no listed deviation (F13.*) is involved.  Here: the exact agreeing fragment.
-/
set_option linter.unusedSimpArgs false
namespace Btc.C19
open Btc Btc.Script

/-- consensus outcome as a library outcome: failure is "method returned False", never an escaping exception -/
def optToOut : Option Stack → Out
  | some s => .ok s
  | none => .no

/-- opcodes on which the library's method and consensus agree on **every** stack -/
def agreeOps : List Nat :=
  [OP_0, OP_1NEGATE, 81, 82, 83, 84, 85, 86, 87, 88, 89, 90, 91, 92, 93, 94, 95, 96, OP_NOP, OP_NOP1, 179, 180, 181, 182, 183, 184, 185, OP_VERIFY, OP_RETURN, OP_2DROP, OP_2DUP, OP_3DUP, OP_2OVER, OP_2ROT, OP_IFDUP, OP_DEPTH, OP_DROP, OP_DUP, OP_NIP, OP_OVER, OP_ROT, OP_SWAP, OP_SIZE, OP_RIPEMD160, OP_SHA1, OP_SHA256, OP_HASH160, OP_HASH256, OP_EQUAL, OP_EQUALVERIFY, OP_1ADD, OP_1SUB, OP_NEGATE, OP_ABS, OP_NOT, OP_0NOTEQUAL, OP_ADD, OP_BOOLAND, OP_BOOLOR, OP_NUMEQUAL, OP_NUMNOTEQUAL, OP_MIN, OP_MAX]

-- small value equalities used per opcode
theorem numItem_one : numItem 1 = [1] := by decide +kernel
theorem numItem_zero : numItem 0 = [] := by decide +kernel
theorem h_not (x : Int) : boolItem (x = 0) = numItem (if x = 0 then 1 else 0) := by
  by_cases h : x = 0 <;> simp [h, boolItem, numItem_one, numItem_zero]
theorem h_0ne (x : Int) : boolItem (x ≠ 0) = numItem (if x ≠ 0 then 1 else 0) := by
  by_cases h : x = 0 <;> simp [h, boolItem, numItem_one, numItem_zero]
theorem h_add (x y : Int) : encodeNum (y + x) = numItem (x + y) := by rw [Int.add_comm]; rfl
theorem h_and (x y : Int) : boolItem (y ≠ 0 ∧ x ≠ 0) = boolItem (x ≠ 0 ∧ y ≠ 0) := by
  by_cases hx : x = 0 <;> by_cases hy : y = 0 <;> simp [hx, hy]
theorem h_or (x y : Int) : boolItem (y ≠ 0 ∨ x ≠ 0) = boolItem (x ≠ 0 ∨ y ≠ 0) := by
  by_cases hx : x = 0 <;> by_cases hy : y = 0 <;> simp [hx, hy]
theorem h_eq (x y : Int) : boolItem (y = x) = boolItem (x = y) := by
  by_cases h : x = y
  · subst h; rfl
  · have : ¬ y = x := fun e => h e.symm
    simp [h, this]
theorem h_ne (x y : Int) : boolItem (y ≠ x) = boolItem (x ≠ y) := by
  by_cases h : x = y
  · subst h; rfl
  · have : ¬ y = x := fun e => h e.symm
    simp [h, this]
theorem h_min (x y : Int) : encodeNum (if y < x then y else x) = numItem (if x < y then x else y) := by
  unfold numItem; congr 1; split <;> split <;> omega
theorem h_max (x y : Int) : encodeNum (if y > x then y else x) = numItem (if x > y then x else y) := by
  unfold numItem; congr 1; split <;> split <;> omega

theorem beq_comm_bytes (a b : Bytes) : (a == b) = (b == a) := by
  by_cases h : a = b
  · subst h; rfl
  · have h1 : (a == b) = false := by simpa using h
    have h2 : (b == a) = false := by simpa using (fun e : b = a => h e.symm)
    rw [h1, h2]

theorem unary_agree (f : Int → Int) (g : Int → Bytes) (hfg : ∀ x, g x = numItem (f x)) (s : Stack) :
    unaryI g s = optToOut (unary f s) := by
  unfold unaryI unary isArith num4
  cases s with
  | nil => simp [optToOut]
  | cons a rest =>
    have hl : ¬ (rest.length + 1 < 1) := by omega
    by_cases h : a.length ≤ 4 <;> simp [h, hl, optToOut, hfg]

theorem binary_agree (f : Int → Int → Bytes) (g : Int → Int → Bytes) (hfg : ∀ x y, g y x = f x y) (s : Stack) :
    binaryI g s = optToOut (binary f s) := by
  unfold binaryI binary isArith num4
  match s with
  | [] => simp [optToOut]
  | [a] => simp [optToOut]
  | b :: a :: rest =>
    have hl : ¬ (rest.length + 1 + 1 < 2) := by omega
    by_cases hb : b.length ≤ 4 <;> by_cases ha : a.length ≤ 4 <;> simp [ha, hb, hl, optToOut, hfg, bind, Option.bind]

theorem verify_agree (s : Stack) :
    verifyI s = optToOut (match s with | a :: rest => if castToBool a then some rest else none | _ => none) := by
  unfold verifyI
  cases s with
  | nil => rfl
  | cons a rest => by_cases h : castToBool a <;> simp [h, optToOut]

macro "op_simp" : tactic => `(tactic|
  simp (config := {decide := true}) only [implOp, execOp, OP_0, OP_1NEGATE, OP_1, OP_16, OP_NOP, OP_NOP1, OP_NOP4, OP_NOP10, OP_VERIFY,
    OP_RETURN, OP_2DROP, OP_2DUP, OP_3DUP, OP_2OVER, OP_2ROT, OP_2SWAP, OP_IFDUP, OP_DEPTH, OP_DROP, OP_DUP, OP_NIP, OP_OVER, OP_PICK,
    OP_ROLL, OP_ROT, OP_SWAP, OP_TUCK, OP_SIZE, OP_EQUAL, OP_EQUALVERIFY, OP_1ADD, OP_1SUB, OP_NEGATE, OP_ABS, OP_NOT, OP_0NOTEQUAL,
    OP_ADD, OP_SUB, OP_BOOLAND, OP_BOOLOR, OP_NUMEQUAL, OP_NUMEQUALVERIFY, OP_NUMNOTEQUAL, OP_LESSTHAN, OP_GREATERTHAN,
    OP_LESSTHANOREQUAL, OP_GREATERTHANOREQUAL, OP_MIN, OP_MAX, OP_WITHIN, OP_RIPEMD160, OP_SHA1, OP_SHA256, OP_HASH160, OP_HASH256,
    OP_CHECKSIG, OP_CHECKSIGVERIFY, OP_CHECKMULTISIG, OP_CHECKMULTISIGVERIFY, OP_CLTV, OP_CSV,
    if_false, if_true, false_and, and_false, or_false, false_or, true_and, and_true, or_true, true_or])

theorem agree_op_0 (env : Env) (s : Stack) : implOp env OP_0 s = optToOut (execOp env OP_0 s) := by
  op_simp; try simp [optToOut, numItem]

theorem agree_op_1negate (env : Env) (s : Stack) : implOp env OP_1NEGATE s = optToOut (execOp env OP_1NEGATE s) := by
  op_simp; try simp [optToOut, numItem]

theorem agree_81 (env : Env) (s : Stack) : implOp env 81 s = optToOut (execOp env 81 s) := by
  op_simp; try simp [optToOut, numItem]

theorem agree_82 (env : Env) (s : Stack) : implOp env 82 s = optToOut (execOp env 82 s) := by
  op_simp; try simp [optToOut, numItem]

theorem agree_83 (env : Env) (s : Stack) : implOp env 83 s = optToOut (execOp env 83 s) := by
  op_simp; try simp [optToOut, numItem]

theorem agree_84 (env : Env) (s : Stack) : implOp env 84 s = optToOut (execOp env 84 s) := by
  op_simp; try simp [optToOut, numItem]

theorem agree_85 (env : Env) (s : Stack) : implOp env 85 s = optToOut (execOp env 85 s) := by
  op_simp; try simp [optToOut, numItem]

theorem agree_86 (env : Env) (s : Stack) : implOp env 86 s = optToOut (execOp env 86 s) := by
  op_simp; try simp [optToOut, numItem]

theorem agree_87 (env : Env) (s : Stack) : implOp env 87 s = optToOut (execOp env 87 s) := by
  op_simp; try simp [optToOut, numItem]

theorem agree_88 (env : Env) (s : Stack) : implOp env 88 s = optToOut (execOp env 88 s) := by
  op_simp; try simp [optToOut, numItem]

theorem agree_89 (env : Env) (s : Stack) : implOp env 89 s = optToOut (execOp env 89 s) := by
  op_simp; try simp [optToOut, numItem]

theorem agree_90 (env : Env) (s : Stack) : implOp env 90 s = optToOut (execOp env 90 s) := by
  op_simp; try simp [optToOut, numItem]

theorem agree_91 (env : Env) (s : Stack) : implOp env 91 s = optToOut (execOp env 91 s) := by
  op_simp; try simp [optToOut, numItem]

theorem agree_92 (env : Env) (s : Stack) : implOp env 92 s = optToOut (execOp env 92 s) := by
  op_simp; try simp [optToOut, numItem]

theorem agree_93 (env : Env) (s : Stack) : implOp env 93 s = optToOut (execOp env 93 s) := by
  op_simp; try simp [optToOut, numItem]

theorem agree_94 (env : Env) (s : Stack) : implOp env 94 s = optToOut (execOp env 94 s) := by
  op_simp; try simp [optToOut, numItem]

theorem agree_95 (env : Env) (s : Stack) : implOp env 95 s = optToOut (execOp env 95 s) := by
  op_simp; try simp [optToOut, numItem]

theorem agree_96 (env : Env) (s : Stack) : implOp env 96 s = optToOut (execOp env 96 s) := by
  op_simp; try simp [optToOut, numItem]

theorem agree_op_nop (env : Env) (s : Stack) : implOp env OP_NOP s = optToOut (execOp env OP_NOP s) := by
  op_simp; try simp [optToOut, numItem]

theorem agree_op_nop1 (env : Env) (s : Stack) : implOp env OP_NOP1 s = optToOut (execOp env OP_NOP1 s) := by
  op_simp; try simp [optToOut, numItem]

theorem agree_179 (env : Env) (s : Stack) : implOp env 179 s = optToOut (execOp env 179 s) := by
  op_simp; try simp [optToOut, numItem]

theorem agree_180 (env : Env) (s : Stack) : implOp env 180 s = optToOut (execOp env 180 s) := by
  op_simp; try simp [optToOut, numItem]

theorem agree_181 (env : Env) (s : Stack) : implOp env 181 s = optToOut (execOp env 181 s) := by
  op_simp; try simp [optToOut, numItem]

theorem agree_182 (env : Env) (s : Stack) : implOp env 182 s = optToOut (execOp env 182 s) := by
  op_simp; try simp [optToOut, numItem]

theorem agree_183 (env : Env) (s : Stack) : implOp env 183 s = optToOut (execOp env 183 s) := by
  op_simp; try simp [optToOut, numItem]

theorem agree_184 (env : Env) (s : Stack) : implOp env 184 s = optToOut (execOp env 184 s) := by
  op_simp; try simp [optToOut, numItem]

theorem agree_185 (env : Env) (s : Stack) : implOp env 185 s = optToOut (execOp env 185 s) := by
  op_simp; try simp [optToOut, numItem]

theorem agree_op_verify (env : Env) (s : Stack) : implOp env OP_VERIFY s = optToOut (execOp env OP_VERIFY s) := by
  op_simp; exact verify_agree s

theorem agree_op_return (env : Env) (s : Stack) : implOp env OP_RETURN s = optToOut (execOp env OP_RETURN s) := by
  op_simp; try (rcases s with _ | ⟨a, _ | ⟨b, _ | ⟨c, _ | ⟨d, _ | ⟨e, _ | ⟨f, r⟩⟩⟩⟩⟩⟩ <;> simp [optToOut, numItem])

theorem agree_op_2drop (env : Env) (s : Stack) : implOp env OP_2DROP s = optToOut (execOp env OP_2DROP s) := by
  op_simp; try (rcases s with _ | ⟨a, _ | ⟨b, _ | ⟨c, _ | ⟨d, _ | ⟨e, _ | ⟨f, r⟩⟩⟩⟩⟩⟩ <;> simp [optToOut, numItem])

theorem agree_op_2dup (env : Env) (s : Stack) : implOp env OP_2DUP s = optToOut (execOp env OP_2DUP s) := by
  op_simp; try (rcases s with _ | ⟨a, _ | ⟨b, _ | ⟨c, _ | ⟨d, _ | ⟨e, _ | ⟨f, r⟩⟩⟩⟩⟩⟩ <;> simp [optToOut, numItem])

theorem agree_op_3dup (env : Env) (s : Stack) : implOp env OP_3DUP s = optToOut (execOp env OP_3DUP s) := by
  op_simp; try (rcases s with _ | ⟨a, _ | ⟨b, _ | ⟨c, _ | ⟨d, _ | ⟨e, _ | ⟨f, r⟩⟩⟩⟩⟩⟩ <;> simp [optToOut, numItem])

theorem agree_op_2over (env : Env) (s : Stack) : implOp env OP_2OVER s = optToOut (execOp env OP_2OVER s) := by
  op_simp; try (rcases s with _ | ⟨a, _ | ⟨b, _ | ⟨c, _ | ⟨d, _ | ⟨e, _ | ⟨f, r⟩⟩⟩⟩⟩⟩ <;> simp [optToOut, numItem])

theorem agree_op_2rot (env : Env) (s : Stack) : implOp env OP_2ROT s = optToOut (execOp env OP_2ROT s) := by
  op_simp; try (rcases s with _ | ⟨a, _ | ⟨b, _ | ⟨c, _ | ⟨d, _ | ⟨e, _ | ⟨f, r⟩⟩⟩⟩⟩⟩ <;> simp [optToOut, numItem])

theorem agree_op_ifdup (env : Env) (s : Stack) : implOp env OP_IFDUP s = optToOut (execOp env OP_IFDUP s) := by
  op_simp; try (rcases s with _ | ⟨a, _ | ⟨b, _ | ⟨c, _ | ⟨d, _ | ⟨e, _ | ⟨f, r⟩⟩⟩⟩⟩⟩ <;> simp [optToOut, numItem])

theorem agree_op_depth (env : Env) (s : Stack) : implOp env OP_DEPTH s = optToOut (execOp env OP_DEPTH s) := by
  op_simp; try (rcases s with _ | ⟨a, _ | ⟨b, _ | ⟨c, _ | ⟨d, _ | ⟨e, _ | ⟨f, r⟩⟩⟩⟩⟩⟩ <;> simp [optToOut, numItem])

theorem agree_op_drop (env : Env) (s : Stack) : implOp env OP_DROP s = optToOut (execOp env OP_DROP s) := by
  op_simp; try (rcases s with _ | ⟨a, _ | ⟨b, _ | ⟨c, _ | ⟨d, _ | ⟨e, _ | ⟨f, r⟩⟩⟩⟩⟩⟩ <;> simp [optToOut, numItem])

theorem agree_op_dup (env : Env) (s : Stack) : implOp env OP_DUP s = optToOut (execOp env OP_DUP s) := by
  op_simp; try (rcases s with _ | ⟨a, _ | ⟨b, _ | ⟨c, _ | ⟨d, _ | ⟨e, _ | ⟨f, r⟩⟩⟩⟩⟩⟩ <;> simp [optToOut, numItem])

theorem agree_op_nip (env : Env) (s : Stack) : implOp env OP_NIP s = optToOut (execOp env OP_NIP s) := by
  op_simp; try (rcases s with _ | ⟨a, _ | ⟨b, _ | ⟨c, _ | ⟨d, _ | ⟨e, _ | ⟨f, r⟩⟩⟩⟩⟩⟩ <;> simp [optToOut, numItem])

theorem agree_op_over (env : Env) (s : Stack) : implOp env OP_OVER s = optToOut (execOp env OP_OVER s) := by
  op_simp; try (rcases s with _ | ⟨a, _ | ⟨b, _ | ⟨c, _ | ⟨d, _ | ⟨e, _ | ⟨f, r⟩⟩⟩⟩⟩⟩ <;> simp [optToOut, numItem])

theorem agree_op_rot (env : Env) (s : Stack) : implOp env OP_ROT s = optToOut (execOp env OP_ROT s) := by
  op_simp; try (rcases s with _ | ⟨a, _ | ⟨b, _ | ⟨c, _ | ⟨d, _ | ⟨e, _ | ⟨f, r⟩⟩⟩⟩⟩⟩ <;> simp [optToOut, numItem])

theorem agree_op_swap (env : Env) (s : Stack) : implOp env OP_SWAP s = optToOut (execOp env OP_SWAP s) := by
  op_simp; try (rcases s with _ | ⟨a, _ | ⟨b, _ | ⟨c, _ | ⟨d, _ | ⟨e, _ | ⟨f, r⟩⟩⟩⟩⟩⟩ <;> simp [optToOut, numItem])

theorem agree_op_size (env : Env) (s : Stack) : implOp env OP_SIZE s = optToOut (execOp env OP_SIZE s) := by
  op_simp; try (rcases s with _ | ⟨a, _ | ⟨b, _ | ⟨c, _ | ⟨d, _ | ⟨e, _ | ⟨f, r⟩⟩⟩⟩⟩⟩ <;> simp [optToOut, numItem])

theorem agree_op_ripemd160 (env : Env) (s : Stack) : implOp env OP_RIPEMD160 s = optToOut (execOp env OP_RIPEMD160 s) := by
  op_simp; try (rcases s with _ | ⟨a, _ | ⟨b, _ | ⟨c, _ | ⟨d, _ | ⟨e, _ | ⟨f, r⟩⟩⟩⟩⟩⟩ <;> simp [optToOut, numItem])

theorem agree_op_sha1 (env : Env) (s : Stack) : implOp env OP_SHA1 s = optToOut (execOp env OP_SHA1 s) := by
  op_simp; try (rcases s with _ | ⟨a, _ | ⟨b, _ | ⟨c, _ | ⟨d, _ | ⟨e, _ | ⟨f, r⟩⟩⟩⟩⟩⟩ <;> simp [optToOut, numItem])

theorem agree_op_sha256 (env : Env) (s : Stack) : implOp env OP_SHA256 s = optToOut (execOp env OP_SHA256 s) := by
  op_simp; try (rcases s with _ | ⟨a, _ | ⟨b, _ | ⟨c, _ | ⟨d, _ | ⟨e, _ | ⟨f, r⟩⟩⟩⟩⟩⟩ <;> simp [optToOut, numItem])

theorem agree_op_hash160 (env : Env) (s : Stack) : implOp env OP_HASH160 s = optToOut (execOp env OP_HASH160 s) := by
  op_simp; try (rcases s with _ | ⟨a, _ | ⟨b, _ | ⟨c, _ | ⟨d, _ | ⟨e, _ | ⟨f, r⟩⟩⟩⟩⟩⟩ <;> simp [optToOut, numItem])

theorem agree_op_hash256 (env : Env) (s : Stack) : implOp env OP_HASH256 s = optToOut (execOp env OP_HASH256 s) := by
  op_simp; try (rcases s with _ | ⟨a, _ | ⟨b, _ | ⟨c, _ | ⟨d, _ | ⟨e, _ | ⟨f, r⟩⟩⟩⟩⟩⟩ <;> simp [optToOut, numItem])

theorem agree_op_equal (env : Env) (s : Stack) : implOp env OP_EQUAL s = optToOut (execOp env OP_EQUAL s) := by
  op_simp; rcases s with _ | ⟨a, _ | ⟨b, r⟩⟩ <;> simp [optToOut, beq_comm_bytes]

theorem agree_op_equalverify (env : Env) (s : Stack) : implOp env OP_EQUALVERIFY s = optToOut (execOp env OP_EQUALVERIFY s) := by
  op_simp; rcases s with _ | ⟨a, _ | ⟨b, r⟩⟩ <;> simp [optToOut]
  by_cases h : a = b
  · subst h; simp [verifyI, boolItem, castToBool, optToOut]
  · have h2 : ¬ b = a := fun e => h e.symm
    simp [h, h2, verifyI, boolItem, castToBool, optToOut]

theorem agree_op_1add (env : Env) (s : Stack) : implOp env OP_1ADD s = optToOut (execOp env OP_1ADD s) := by
  op_simp; exact unary_agree (· + 1) _ (fun x => rfl) s

theorem agree_op_1sub (env : Env) (s : Stack) : implOp env OP_1SUB s = optToOut (execOp env OP_1SUB s) := by
  op_simp; exact unary_agree (· - 1) _ (fun x => rfl) s

theorem agree_op_negate (env : Env) (s : Stack) : implOp env OP_NEGATE s = optToOut (execOp env OP_NEGATE s) := by
  op_simp; exact unary_agree (fun x => -x) _ (fun x => rfl) s

theorem agree_op_abs (env : Env) (s : Stack) : implOp env OP_ABS s = optToOut (execOp env OP_ABS s) := by
  op_simp; exact unary_agree (fun x => if x < 0 then -x else x) _ (fun x => rfl) s

theorem agree_op_not (env : Env) (s : Stack) : implOp env OP_NOT s = optToOut (execOp env OP_NOT s) := by
  op_simp; exact unary_agree (fun x => if x = 0 then 1 else 0) _ (h_not) s

theorem agree_op_0notequal (env : Env) (s : Stack) : implOp env OP_0NOTEQUAL s = optToOut (execOp env OP_0NOTEQUAL s) := by
  op_simp; exact unary_agree (fun x => if x ≠ 0 then 1 else 0) _ (h_0ne) s

theorem agree_op_add (env : Env) (s : Stack) : implOp env OP_ADD s = optToOut (execOp env OP_ADD s) := by
  op_simp; exact binary_agree _ _ h_add s

theorem agree_op_booland (env : Env) (s : Stack) : implOp env OP_BOOLAND s = optToOut (execOp env OP_BOOLAND s) := by
  op_simp; exact binary_agree _ _ h_and s

theorem agree_op_boolor (env : Env) (s : Stack) : implOp env OP_BOOLOR s = optToOut (execOp env OP_BOOLOR s) := by
  op_simp; exact binary_agree _ _ h_or s

theorem agree_op_numequal (env : Env) (s : Stack) : implOp env OP_NUMEQUAL s = optToOut (execOp env OP_NUMEQUAL s) := by
  op_simp; exact binary_agree _ _ h_eq s

theorem agree_op_numnotequal (env : Env) (s : Stack) : implOp env OP_NUMNOTEQUAL s = optToOut (execOp env OP_NUMNOTEQUAL s) := by
  op_simp; exact binary_agree _ _ h_ne s

theorem agree_op_min (env : Env) (s : Stack) : implOp env OP_MIN s = optToOut (execOp env OP_MIN s) := by
  op_simp; exact binary_agree _ _ h_min s

theorem agree_op_max (env : Env) (s : Stack) : implOp env OP_MAX s = optToOut (execOp env OP_MAX s) := by
  op_simp; exact binary_agree _ _ h_max s

/-- T1 (per opcode): on every stack, the library's opcode method and consensus give the same
result — same new stack, or failure in both. -/
theorem implOp_agree (env : Env) : ∀ n ∈ agreeOps, ∀ s : Stack, implOp env n s = optToOut (execOp env n s) := by
  simp only [agreeOps, List.forall_mem_cons, List.not_mem_nil, false_imp_iff, implies_true, and_true]
  exact ⟨agree_op_0 env, agree_op_1negate env, agree_81 env, agree_82 env, agree_83 env, agree_84 env, agree_85 env, agree_86 env, agree_87 env, agree_88 env, agree_89 env, agree_90 env, agree_91 env, agree_92 env, agree_93 env, agree_94 env, agree_95 env, agree_96 env, agree_op_nop env, agree_op_nop1 env, agree_179 env, agree_180 env, agree_181 env, agree_182 env, agree_183 env, agree_184 env, agree_185 env, agree_op_verify env, agree_op_return env, agree_op_2drop env, agree_op_2dup env, agree_op_3dup env, agree_op_2over env, agree_op_2rot env, agree_op_ifdup env, agree_op_depth env, agree_op_drop env, agree_op_dup env, agree_op_nip env, agree_op_over env, agree_op_rot env, agree_op_swap env, agree_op_size env, agree_op_ripemd160 env, agree_op_sha1 env, agree_op_sha256 env, agree_op_hash160 env, agree_op_hash256 env, agree_op_equal env, agree_op_equalverify env, agree_op_1add env, agree_op_1sub env, agree_op_negate env, agree_op_abs env, agree_op_not env, agree_op_0notequal env, agree_op_add env, agree_op_booland env, agree_op_boolor env, agree_op_numequal env, agree_op_numnotequal env, agree_op_min env, agree_op_max env⟩

/-! ## Programs -/

/-- a straight-line program over the agreeing opcode set: data pushes and opcodes of `agreeOps` -/
def Straight (prog : List Item) : Prop :=
  ∀ it ∈ prog, match it with
    | .push _ => True
    | .op n => n ∈ agreeOps

theorem agreeOps_not_flow : ∀ n ∈ agreeOps, n ≠ OP_IF ∧ n ≠ OP_NOTIF ∧ n ≠ OP_ELSE ∧ n ≠ OP_ENDIF := by decide

/-- consensus verdict from a final state -/
def finish : Option St → Result
  | none => .reject
  | some st =>
    if !st.exec.isEmpty then .reject
    else match st.stack with
      | top :: rest => if castToBool top then .accept rest else .reject
      | [] => .reject

theorem loop_straight (env : Env) : ∀ (prog : List Item), Straight prog → ∀ (s : Stack) (fuel : Nat),
    prog.length + 1 ≤ fuel → loopImpl env fuel prog s = finish (runSpec env ⟨s, []⟩ prog)
  | [], _, s, fuel, hf => by
    cases fuel with
    | zero => omega
    | succ f =>
      cases s with
      | nil => simp [loopImpl, runSpec, finish]
      | cons top rest => simp [loopImpl, runSpec, finish]
  | it :: rest, hst, s, fuel, hf => by
    cases fuel with
    | zero => simp at hf
    | succ f =>
      have hrest : Straight rest := fun x hx => hst x (by simp [hx])
      have hf' : rest.length + 1 ≤ f := by simp at hf; omega
      cases it with
      | push d =>
        simp only [loopImpl, runSpec, stepSpec, List.all_nil, if_true]
        exact loop_straight env rest hrest (d :: s) f hf'
      | op n =>
        have hn : n ∈ agreeOps := hst (.op n) (by simp)
        obtain ⟨h1, h2, h3, h4⟩ := agreeOps_not_flow n hn
        have hag := implOp_agree env n hn s
        simp only [loopImpl, runSpec, stepSpec, List.all_nil, if_true]
        rw [if_neg (by intro h; rcases h with h | h <;> contradiction)]
        rw [if_neg (by intro h; rcases h with h | h <;> contradiction), if_neg h3, if_neg h4]
        rw [hag]
        cases hx : execOp env n s with
        | none => simp [optToOut, finish]
        | some s' =>
          simp only [optToOut, Option.map]
          exact loop_straight env rest hrest s' f hf'

/-- T2: for every straight-line program over the agreeing opcode set — any length, any data — the
library's evaluation and consensus give the same verdict and the same remaining stack. -/
theorem evalImpl_eq_evalSpec (env : Env) (prog : List Item) (h : Straight prog) :
    evalImpl env prog = evalSpec env prog := by
  unfold evalImpl evalSpec
  rw [loop_straight env prog h [] (prog.length + 1) (Nat.le_refl _)]
  unfold finish
  cases runSpec env ⟨[], []⟩ prog <;> rfl

/-- corollary (safety direction on the fragment): what consensus rejects is not reported valid -/
theorem reject_preserved (env : Env) (prog : List Item) (h : Straight prog) (hr : evalSpec env prog = .reject) :
    evalImpl env prog = .reject := by rw [evalImpl_eq_evalSpec env prog h, hr]

/-! ## Witnesses of the listed deviations (each is replayed against the library on every run) -/

def env0 : Env := { sigOk := fun _ _ => false, sigWellFormed := fun _ => false, keyWellFormed := fun _ => false,
                    ripemd160 := id, sha1 := id, sha256 := id, sequence := 0xfffffffe, locktime := 0, version := 2, redeemscript := none }

/-- F13.sub: `2 5 SUB 3 EQUAL` — the library computes 5-2 -/
theorem F13_sub : evalImpl env0 [.op 82, .op 85, .op OP_SUB, .op 83, .op OP_EQUAL] ≠
    evalSpec env0 [.op 82, .op 85, .op OP_SUB, .op 83, .op OP_EQUAL] := by decide +kernel
/-- F13.tuck: `1 2 TUCK` leaves 1 2 1 (consensus 2 1 2) -/
theorem F13_tuck : evalImpl env0 [.op 81, .op 82, .op OP_TUCK] ≠ evalSpec env0 [.op 81, .op 82, .op OP_TUCK] := by decide +kernel
/-- F13.2swap -/
theorem F13_2swap : evalImpl env0 [.op 81, .op 82, .op 83, .op 84, .op OP_2SWAP] ≠
    evalSpec env0 [.op 81, .op 82, .op 83, .op 84, .op OP_2SWAP] := by decide +kernel
/-- F13.pick: `1 2 3 1 PICK 2 EQUAL` — consensus copies the second item from the top, the library the top -/
theorem F13_pick : evalImpl env0 [.op 81, .op 82, .op 83, .op 81, .op OP_PICK, .op 82, .op OP_EQUAL] ≠
    evalSpec env0 [.op 81, .op 82, .op 83, .op 81, .op OP_PICK, .op 82, .op OP_EQUAL] := by decide +kernel
/-- F13.within: consensus `2 1 3 WITHIN` is true; the library reads x from the top -/
theorem F13_within : evalImpl env0 [.op 82, .op 81, .op 83, .op OP_WITHIN] ≠ evalSpec env0 [.op 82, .op 81, .op 83, .op OP_WITHIN] := by
  decide +kernel
/-- F13.lessthan: the comparison opcodes have no method: an exception escapes -/
theorem F13_lessthan : evalImpl env0 [.op 81, .op 82, .op OP_LESSTHAN] = .raises ∧ evalSpec env0 [.op 81, .op 82, .op OP_LESSTHAN] = .accept [] := by
  decide +kernel
/-- F13.flow: a second OP_ELSE does not toggle: `1 IF 0 ELSE 0 ELSE 1 ENDIF` — consensus executes the third branch -/
theorem F13_flow_second_else :
    evalImpl env0 [.op 81, .op OP_IF, .op 0, .op OP_ELSE, .op 0, .op OP_ELSE, .op 81, .op OP_ENDIF] ≠
    evalSpec env0 [.op 81, .op OP_IF, .op 0, .op OP_ELSE, .op 0, .op OP_ELSE, .op 81, .op OP_ENDIF] := by decide +kernel

/-! ## Table theorem: the opcode numbers used by both models are the library's (generated table) -/

theorem opcode_numbers :
    [(OP_IF, "OP_IF"), (OP_NOTIF, "OP_NOTIF"), (OP_ELSE, "OP_ELSE"), (OP_ENDIF, "OP_ENDIF"), (OP_VERIFY, "OP_VERIFY"), (OP_RETURN, "OP_RETURN"),
     (OP_2SWAP, "OP_2SWAP"), (OP_TUCK, "OP_TUCK"), (OP_PICK, "OP_PICK"), (OP_ROLL, "OP_ROLL"), (OP_SIZE, "OP_SIZE"), (OP_EQUAL, "OP_EQUAL"),
     (OP_ADD, "OP_ADD"), (OP_SUB, "OP_SUB"), (OP_WITHIN, "OP_WITHIN"), (OP_LESSTHAN, "OP_LESSTHAN"), (OP_HASH160, "OP_HASH160"),
     (OP_CHECKSIG, "OP_CHECKSIG"), (OP_CHECKMULTISIG, "OP_CHECKMULTISIG"), (OP_CLTV, "OP_CHECKLOCKTIMEVERIFY"),
     (OP_CSV, "OP_CHECKSEQUENCEVERIFY"), (OP_NOP10, "OP_NOP10"), (OP_1NEGATE, "OP_1NEGATE"), (OP_16, "OP_16")].all
      (fun p => Gen.opcodeTable.contains p) = true := by decide +kernel

/-- non-vacuity: a P2PKH-shaped straight-line program is in the fragment -/
example : Straight [.push [1, 2], .push [3], .op OP_DUP, .op OP_HASH160, .push [4], .op OP_EQUALVERIFY] := by
  intro it hit
  simp only [List.mem_cons, List.mem_nil_iff, or_false] at hit
  rcases hit with rfl | rfl | rfl | rfl | rfl | rfl <;> first | trivial | decide

end Btc.C19
