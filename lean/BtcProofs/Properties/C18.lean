import BtcModel.Wire
import BtcProofs.Lemmas.Bytes
import BtcProofs.Lemmas.ScriptNum
import BtcProofs.Lemmas.Script
/-!
# C18 — Wire primitives (CompactSize, script numbers, pushes) are canonical, round-trip

> The low-level encodings every serialization relies on - CompactSize integers, script numbers
> and script data pushes - decode back to the value encoded, always use the shortest form that
> Bitcoin nodes require, and agree with the protocol definition at every size boundary. Parsing
> a script built from any sequence of opcodes and data items and serializing it again
> reproduces the same bytes and the same items.

Property theorems only; helper lemmas live in `BtcProofs/Lemmas`.
-/
namespace Btc.C18
open Btc

/-! ## CompactSize -/

/-- T1: decoding the canonical encoding gives back the value and the consumed length,
whatever follows it in the stream. -/
theorem csDec_csEnc (n : Nat) (e : Bytes) (h : csEnc n = some e) (r : Bytes) :
    csDec (e ++ r) = (n, e.length) := by
  unfold csEnc at h
  split at h
  · rename_i h1
    cases h
    have : (UInt8.ofNat n).toNat = n := toNat_ofNat_lt (by omega)
    simp [csDec, this]; omega
  · split at h
    · cases h
      simp only [List.cons_append, csDec]
      have e : (0xfd : UInt8).toNat = 253 := by decide
      simp only [e, take_leBytes_append, leVal_leBytes, List.length_cons, leBytes_length]
      simp; omega
    · split at h
      · cases h
        simp only [List.cons_append, csDec]
        have e : (0xfe : UInt8).toNat = 254 := by decide
        simp only [e, take_leBytes_append, leVal_leBytes, List.length_cons, leBytes_length]
        simp; omega
      · split at h
        · cases h
          simp only [List.cons_append, csDec]
          have e : (0xff : UInt8).toNat = 255 := by decide
          simp only [e, take_leBytes_append, leVal_leBytes, List.length_cons, leBytes_length]
          simp; omega
        · cases h

/-- every value below 2^64 has an encoding (and nothing else has). -/
theorem csEnc_isSome_iff (n : Nat) : (csEnc n).isSome ↔ n < 2^64 := by
  unfold csEnc; repeat' split
  all_goals simp
  all_goals omega

/-- T2 (canonicity): a canonical prefix is *the* encoding of the value it decodes to —
there is exactly one accepted spelling of every count. -/
theorem csEnc_of_canonical (b : Bytes) (h : csCanonical b = true) :
    csEnc (csDec b).1 = some (b.take (csDec b).2) := by
  cases b with
  | nil => simp [csCanonical] at h
  | cons x rest =>
    have hx := x.toNat_lt
    simp only [csCanonical] at h
    simp only [csDec]
    split
    · rename_i h1
      simp only [csEnc]
      rw [if_pos (by omega)]
      simp
    · rename_i h1
      rw [if_neg h1] at h
      split
      · rename_i h2
        rw [if_pos h2] at h
        simp only [Bool.and_eq_true, decide_eq_true_eq] at h
        have hl : (rest.take 2).length = 2 := by simp; omega
        have hlt := leVal_lt (rest.take 2)
        rw [hl] at hlt
        simp only [csEnc]
        rw [if_neg (by omega), if_pos (by omega)]
        have := leBytes_leVal (rest.take 2)
        rw [hl] at this
        have hx2 : x = 0xfd := by
          apply UInt8.toNat_inj.mp; simpa using h2
        simp [this, hx2]
      · rename_i h2
        rw [if_neg h2] at h
        split
        · rename_i h3
          rw [if_pos h3] at h
          simp only [Bool.and_eq_true, decide_eq_true_eq] at h
          have hl : (rest.take 4).length = 4 := by simp; omega
          have hlt := leVal_lt (rest.take 4)
          rw [hl] at hlt
          simp only [csEnc]
          rw [if_neg (by omega), if_neg (by omega), if_pos (by omega)]
          have := leBytes_leVal (rest.take 4)
          rw [hl] at this
          have hx2 : x = 0xfe := by
            apply UInt8.toNat_inj.mp; simpa using h3
          simp [this, hx2]
        · rename_i h3
          rw [if_neg h3] at h
          simp only [Bool.and_eq_true, decide_eq_true_eq] at h
          have hl : (rest.take 8).length = 8 := by simp; omega
          have hlt := leVal_lt (rest.take 8)
          rw [hl] at hlt
          simp only [csEnc]
          rw [if_neg (by omega), if_neg (by omega), if_neg (by omega), if_pos (by omega)]
          have := leBytes_leVal (rest.take 8)
          rw [hl] at this
          have hx2 : x = 0xff := by
            apply UInt8.toNat_inj.mp
            have : x.toNat = 255 := by omega
            simpa using this
          simp [this, hx2]

/-- the canonical encoding is canonical -/
theorem csCanonical_csEnc (n : Nat) (e : Bytes) (h : csEnc n = some e) (r : Bytes) :
    csCanonical (e ++ r) = true := by
  unfold csEnc at h
  split at h
  · cases h
    have : (UInt8.ofNat n).toNat = n := toNat_ofNat_lt (by omega)
    simp [csCanonical, this]; omega
  · split at h
    · cases h
      have e : (0xfd : UInt8).toNat = 253 := by decide
      simp only [List.cons_append, csCanonical, e, take_leBytes_append, leVal_leBytes]
      simp; omega
    · split at h
      · cases h
        have e : (0xfe : UInt8).toNat = 254 := by decide
        simp only [List.cons_append, csCanonical, e, take_leBytes_append, leVal_leBytes]
        simp; omega
      · split at h
        · cases h
          have e : (0xff : UInt8).toNat = 255 := by decide
          simp only [List.cons_append, csCanonical, e, take_leBytes_append, leVal_leBytes]
          simp; omega
        · cases h

/-- boundary table (the sizes Bitcoin nodes require) -/
theorem csEnc_length (n : Nat) (e : Bytes) (h : csEnc n = some e) :
    e.length = if n < 0xfd then 1 else if n ≤ 0xffff then 3 else if n ≤ 0xffffffff then 5 else 9 := by
  unfold csEnc at h
  repeat' split at h
  all_goals first | cases h | skip
  all_goals (simp only [List.length_cons, leBytes_length, List.length_nil]; split <;> (try split) <;> (try split) <;> omega)

/-- T3a: the repaired implementation is the specification. -/
theorem csEncImpl_none (n : Nat) : csEncImpl Dev.none n = csEnc n := by
  simp [csEncImpl, csEnc, Dev.none]

/-- T3b: the implementation *as found* (finding F01) agrees with the specification exactly
outside {0xffff, 0xffffffff}. -/
theorem csEncImpl_varintLt_iff (n : Nat) :
    csEncImpl { varintLt := true } n = csEnc n ↔ (n ≠ 0xffff ∧ n ≠ 0xffffffff) := by
  constructor
  · intro heq
    constructor
    · intro hn; subst hn; revert heq; decide
    · intro hn; subst hn; revert heq; decide
  · intro ⟨h1, h2⟩
    unfold csEncImpl csEnc
    have e1 : (n < 0xffff) = (n ≤ 0xffff) := by simp; omega
    have e2 : (n < 0xffffffff) = (n ≤ 0xffffffff) := by simp; omega
    simp only [if_true, e1, e2]

/-- witnesses of F01 (replayed against the real code on every run) -/
theorem F01_witness_ffff : csEncImpl { varintLt := true } 0xffff ≠ csEnc 0xffff := by decide
theorem F01_witness_ffffffff : csEncImpl { varintLt := true } 0xffffffff ≠ csEnc 0xffffffff := by decide

/-- `varstr` repaired = spec; as found: differs exactly on the F01/F02 trigger sets -/
theorem varstrImpl_none (s : Bytes) : varstrImpl Dev.none s = varstr s := by
  have := csEncImpl_none s.length
  simp only [Dev.none] at this
  simp [varstrImpl, varstr, Dev.none, this]

theorem varstrImpl_varstrZero_iff (s : Bytes) :
    varstrImpl { varstrZero := true } s = varstr s ↔ s ≠ [0] := by
  constructor
  · intro h hs; subst hs; revert h; decide
  · intro hs
    have : (s == [0]) = false := by simpa using hs
    simp only [varstrImpl, this, Bool.and_false, varstr]
    have := csEncImpl_none s.length
    simp only [Dev.none] at this
    simp [csEncImpl, csEnc]

example : varstrImpl { varstrZero := true } [0] ≠ varstr [0] := by decide

/-! ## Script numbers -/

/-- T4a: decoding an encoded script number gives the number, for every integer. -/
theorem decodeNum_encodeNum (z : Int) : decodeNum (encodeNum z) = z := by
  unfold encodeNum
  split
  · rename_i h; subst h; simp [decodeNum, decMag]
  · rename_i h
    unfold decodeNum
    rw [decMag_encMag _ _ (by omega)]
    simp only
    split
    · rename_i hneg; simp at hneg; omega
    · rename_i hneg; simp at hneg; omega

/-- T4b: the encoding is the minimal one consensus demands (`fRequireMinimal`). -/
theorem numMinimal_encodeNum (z : Int) : numMinimal (encodeNum z) = true := by
  unfold encodeNum
  split
  · rfl
  · exact numMinimal_encMag _ _ (by omega)

/-- T4c: a minimal byte string is the encoding of the number it decodes to — one spelling
per number. -/
theorem encodeNum_decodeNum (b : Bytes) (h : numMinimal b = true) : encodeNum (decodeNum b) = b := by
  cases hb : b with
  | nil => simp [decodeNum, decMag, encodeNum]
  | cons x xs =>
    subst hb
    have hpos := decMag_pos_of_minimal _ h (by simp)
    have hrt := encMag_decMag _ h (by simp)
    unfold decodeNum encodeNum
    generalize decMag (x :: xs) = r at *
    obtain ⟨m, sg⟩ := r
    simp only at hpos hrt ⊢
    cases sg
    · simp only [Bool.false_eq_true, if_false]
      rw [if_neg (by omega)]
      have e : ¬ ((m : Int) < 0) := by omega
      simp only [e, decide_false]; exact hrt
    · simp only [if_true]
      rw [if_neg (by omega)]
      have e : (-(m : Int) < 0) := by omega
      have e2 : (-(m : Int)).natAbs = m := by omega
      simp only [e, decide_true, e2]; exact hrt

/-- T4d: the 4-byte operand rule corresponds to |z| < 2^31. -/
theorem encodeNum_length_le_4 (z : Int) : (encodeNum z).length ≤ 4 ↔ z.natAbs < 2^31 := by
  unfold encodeNum
  split
  · rename_i h; subst h; simp
  · have h1 := encMag_length_le_1
    have h2 := encMag_length_le_succ 0 (2^7) (by decide) h1
    have h3 := encMag_length_le_succ 1 (256 * 2^7) (by decide) h2
    have h4 := encMag_length_le_succ 2 (256 * (256 * 2^7)) (by decide) h3
    exact h4 _ _

/-- sign-bit edges, as corollaries that compute -/
example : encodeNum 127 = [0x7f] ∧ encodeNum 128 = [0x80, 0x00] ∧ encodeNum (-127) = [0xff]
    ∧ encodeNum (-128) = [0x80, 0x80] ∧ encodeNum 32767 = [0xff, 0x7f]
    ∧ encodeNum 32768 = [0x00, 0x80, 0x00] ∧ encodeNum (-32768) = [0x00, 0x80, 0x80] := by decide +kernel

/-! ## Pushes and scripts -/

/-- T5: `data_pack` uses the shortest push form consensus accepts for the length. -/
theorem dataPack_shortest (d p : Bytes) (h : dataPack d = some p) :
    p.length = d.length + (if d.length ≤ 75 then 1 else if d.length ≤ 255 then 2 else 3) := by
  unfold dataPack at h
  repeat' split at h
  all_goals first | cases h | skip
  all_goals (simp only [List.length_cons, List.length_append, leBytes_length]; split <;> (try split) <;> omega)

theorem dataPack_isSome_iff (d : Bytes) : (dataPack d).isSome ↔ d.length ≤ 65535 := by
  unfold dataPack; repeat' split
  all_goals simp
  all_goals omega

/-- T6: a script built from any sequence of (non-push) opcodes and data items of 1..65535
bytes serialises, and the consensus tokeniser reads the bytes back to the same items. -/
theorem tokenize_serialize (cs : List Cmd) (h : ∀ c ∈ cs, c.WF) :
    ∃ bs, serialize cs = some bs ∧ tokenize bs = some cs := by
  have := serialize_isSome cs h
  obtain ⟨bs, hbs⟩ := Option.isSome_iff_exists.mp this
  exact ⟨bs, hbs, tokF_serialize cs h bs hbs _ (Nat.le_refl _)⟩

/-- T6': the library's command reader (heuristics aside) reads them back too … -/
theorem parseImpl_serialize (cs : List Cmd) (h : ∀ c ∈ cs, c.WF) :
    ∃ bs, serialize cs = some bs ∧ parseImpl bs = some cs := by
  have := serialize_isSome cs h
  obtain ⟨bs, hbs⟩ := Option.isSome_iff_exists.mp this
  exact ⟨bs, hbs, parseF_serialize cs h bs hbs _ (Nat.le_refl _)⟩

/-- … hence parse-then-serialise reproduces the same bytes and the same items. -/
theorem serialize_parse_serialize (cs : List Cmd) (h : ∀ c ∈ cs, c.WF) :
    ∃ bs cs', serialize cs = some bs ∧ parseImpl bs = some cs' ∧ cs' = cs ∧ serialize cs' = some bs := by
  obtain ⟨bs, h1, h2⟩ := parseImpl_serialize cs h
  exact ⟨bs, cs, h1, h2, rfl, h1⟩

/-- the empty data item is spelled `OP_0` (one token, `op 0`) -/
example : serialize [Cmd.data []] = serialize [Cmd.op 0] := by decide

/-- non-vacuity: a P2PKH-shaped command list is well-formed -/
example : ∀ c ∈ [Cmd.op 0x76, Cmd.op 0xa9, Cmd.data (List.replicate 20 7), Cmd.op 0x88, Cmd.op 0xac],
    c.WF := by decide

end Btc.C18
