import BtcModel.Driver.Wire
import BtcModel.Driver.Enc
import BtcModel.Driver.Tx
import BtcModel.Driver.Sig
import BtcModel.Driver.Keys
import BtcModel.Driver.Script
import BtcModel.Driver.Verify
import BtcModel.Driver.Mnemonic
import BtcModel.Driver.Service
import BtcModel.Driver.Amount
import BtcModel.Driver.Redact
import BtcModel.Driver.Bip38
import BtcModel.Driver.Ledger
import BtcModel.Driver.TxCreate
import BtcModel.Driver.KeyPaths
import BtcModel.Driver.Multisig
import BtcModel.Driver.DbCrypt
/-!
`btcdriver [flag ...]` — line protocol: one operation per input line (space separated tokens),
one result line per operation: `spec | impl [| extra]`, `bad-op` for an unknown or malformed
operation.  The flags name the deviations (`Btc.Dev`) that are switched on in `impl`.
-/
open Btc Btc.Driver

def dispatch (D : Dev) (toks : List String) : String :=
  match (handleWire D toks <|> handleEnc D toks <|> handleTx D toks <|> handleSig D toks <|> handleKeys D toks <|> handleScript D toks <|> handleVerify D toks <|> handleMnemonic D toks <|> handleService D toks <|> handleAmount D toks <|> handleRedact D toks <|> handleBip38 D toks <|> handleLedger D toks <|> handleTxCreate D toks <|> handleKeyPaths D toks <|> handleMultisig D toks <|> handleDbCrypt D toks) with
  | some r => r
  | none => "bad-op"

partial def loop (D : Dev) (h : IO.FS.Stream) (out : IO.FS.Stream) : IO Unit := do
  let line ← h.getLine
  if line.isEmpty then return ()
  let toks := (line.trimAscii.toString.splitOn " ").filter (· ≠ "")
  out.putStrLn (dispatch D toks)
  loop D h out

def main (args : List String) : IO Unit := do
  let D := Dev.ofNames args
  let out ← IO.getStdout
  loop D (← IO.getStdin) out
  out.flush
